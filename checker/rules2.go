package main

// Rules added after the first round of independently seeded changes (DESIGN.md §9): each closes a
// class of realistic breakage that the first rule set did not see.

import (
	"fmt"
	"go/token"
	"go/types"
	"sort"
	"strings"

	"golang.org/x/tools/go/ssa"
)

// ---------------------------------------------------------------------------
// R-REGEX-REPL-LITERAL (C16, C18): Regexp.ReplaceAllString / ReplaceAll / Expand interpret `$name`
// and `${name}` in their replacement argument.  A replacement that is not a constant (template
// content, a data value) must go through ReplaceAllLiteralString or a ReplaceAllStringFunc closure,
// otherwise text such as "US$1500" loses characters.
// ---------------------------------------------------------------------------

var expandingRegexpMethods = map[string]int{ // callee → index of the replacement argument (receiver = 0)
	"(*regexp.Regexp).ReplaceAllString": 2,
	"(*regexp.Regexp).ReplaceAll":       2,
	"(*regexp.Regexp).Expand":           2,
	"(*regexp.Regexp).ExpandString":     2,
}

func ruleRegexReplLiteral(r *Run) {
	p := r.P
	n := 0
	for _, fn := range p.ModFuncs() {
		if fn.Pkg == nil {
			continue
		}
		idx := 0
		allInstrs(fn, func(in ssa.Instruction) {
			c, ok := in.(ssa.CallInstruction)
			if !ok {
				return
			}
			ai, ok := expandingRegexpMethods[calleeName(c)]
			if !ok || ai >= len(c.Common().Args) {
				return
			}
			n++
			idx++
			repl := c.Common().Args[ai]
			cs, isConst := constString(stripConv(repl))
			okc := isConst && !strings.Contains(cs, "$")
			detail := fmt.Sprintf("constant replacement %q", cs)
			if !isConst {
				detail = "the replacement is computed at run time (" + symOf(repl).String() + "): `$1`, `$name` and `${name}` inside it are expanded as (empty) submatch references, so literal text containing a dollar sign is silently altered; use ReplaceAllLiteralString or ReplaceAllStringFunc"
			} else if !okc {
				detail = fmt.Sprintf("constant replacement %q contains a submatch reference; confirm it is intended", cs)
				okc = true // a constant is the author's explicit choice
			}
			r.Check("regex-repl-literal", fmt.Sprintf("%s#%d", shortName(topLevel(fn)), idx), c.Pos(), okc, detail)
		})
	}
	r.Min("expanding_regexp_replacements", n, 3)
}

// ---------------------------------------------------------------------------
// R-EXPORT-PURE (C20): exporting must not change the document it reads — otherwise a second
// export of the same document differs from the first ("every run's text exactly once", stability).
// ---------------------------------------------------------------------------

func ruleExportPure(r *Run) {
	p := r.P
	ms := newMutSummary(p, true)
	ms.computeAll()
	var entries []*ssa.Function
	for _, fn := range p.exportedAPI(pkgMd) {
		if fn.Signature.Recv() == nil {
			continue
		}
		rt := typeName(fn.Signature.Recv().Type())
		if rt == "markdown.MarkdownWriter" || rt == "markdown.Exporter" {
			entries = append(entries, fn)
		}
	}
	if w := p.Func(pkgMd, "(*MarkdownWriter).Write"); w != nil {
		entries = append(entries, w)
	}
	r.Min("export_entry_points", len(entries), 3)
	reported := map[string]bool{}
	for _, fn := range entries {
		for _, sites := range ms.Params(fn) {
			for _, s := range sites {
				if s.Field == nil {
					continue
				}
				o := fieldOwner(p, s.Field)
				if o == nil || o.Obj().Pkg() == nil || o.Obj().Pkg().Path() != pkgDoc {
					continue
				}
				key := shortName(s.Fn) + ":" + o.Obj().Name() + "." + s.Field.Name()
				if reported[key] {
					continue
				}
				reported[key] = true
				r.Check("export-pure", key, s.Instr.Pos(), false,
					fmt.Sprintf("%s (reached from %s) writes %s.%s of the document being exported: exporting changes the document, so a second export of the same document yields different Markdown", shortName(s.Fn), shortName(fn), o.Obj().Name(), s.Field.Name()))
			}
		}
	}
	if len(reported) == 0 {
		r.Check("export-pure", "MarkdownWriter", entries[0].Pos(), true, fmt.Sprintf("%d export entry points; no store into a pkg/document struct through the writer or its arguments, directly or in callees", len(entries)))
	}
}

// ---------------------------------------------------------------------------
// R-CONFIG-PURE (C10): adding an image must not write into the caller's ImageConfig / ImageSize —
// the same configuration object is legitimately reused for several images, each of which must get
// the extent its own pixel size implies.
// ---------------------------------------------------------------------------

func ruleConfigPure(r *Run) {
	p := r.P
	ms := newMutSummary(p, true)
	ms.computeAll()
	n := 0
	for _, fn := range p.exportedAPI(pkgDoc) {
		for i, par := range fn.Params {
			if !typeIs(par.Type(), pkgDoc, "ImageConfig") && !typeIs(par.Type(), pkgDoc, "ImageSize") {
				continue
			}
			// the explicit "set this image's size/config" API is allowed to store the argument; what is
			// checked is that nothing writes INTO the configuration object
			n++
			var bad *writeSite
			for _, s := range ms.Params(fn)[i] {
				s := s
				if s.Field == nil {
					continue
				}
				if o := fieldOwner(p, s.Field); o != nil && (o.Obj().Name() == "ImageConfig" || o.Obj().Name() == "ImageSize") {
					bad = &s
					break
				}
			}
			detail := "no store into the configuration object, directly or in callees"
			if bad != nil {
				detail = fmt.Sprintf("%s stores into field %s of the caller's configuration (%s): a configuration reused for a second image now carries values derived from the first", shortName(bad.Fn), bad.Field.Name(), p.pos(bad.Instr.Pos()))
			}
			r.Check("config-pure", shortName(fn)+":"+par.Name(), fn.Pos(), bad == nil, detail)
		}
	}
	// The configuration usually travels inside an ImageInfo created by the adding call, which the
	// summaries above do not follow.  So, module-wide: a store into an ImageConfig/ImageSize that the
	// storing function did not allocate is allowed only in an exported "set this image's …" method
	// that stores one of its own arguments.
	for _, fn := range p.ModFuncs() {
		if fn.Pkg == nil || fn.Pkg.Pkg.Path() != pkgDoc {
			continue
		}
		allInstrs(fn, func(in ssa.Instruction) {
			st, ok := in.(*ssa.Store)
			if !ok {
				return
			}
			chain, root := addrChain(st.Addr)
			if len(chain) == 0 || chain[len(chain)-1] == nil || allocBase(st.Addr) != nil {
				return
			}
			fv := chain[len(chain)-1]
			o := fieldOwner(p, fv)
			if o == nil || (o.Obj().Name() != "ImageConfig" && o.Obj().Name() != "ImageSize") {
				return
			}
			if _, isAlloc := stripLoads(root).(*ssa.Alloc); isAlloc {
				return
			}
			// fresh object returned by a constructor call in this function
			if c, isCall := stripLoads(root).(*ssa.Call); isCall && staticCallee(c) != nil {
				return
			}
			n++
			top := topLevel(fn)
			exported := top.Object() != nil && top.Object().Exported()
			fromArg := false
			for rt := range rootsOf(st.Val) {
				if par, ok := rt.(*ssa.Parameter); ok && ssa.Value(par) != stripLoads(root) {
					fromArg = true
				}
			}
			okc := exported && fromArg
			r.Check("config-pure", shortName(fn)+":"+o.Obj().Name()+"."+fv.Name(), st.Pos(), okc,
				fmt.Sprintf("%s stores into %s.%s of a configuration object it did not create; only the exported setters that store their own argument may do that (exported=%v, value from an argument=%v): a configuration shared by several images must not be rewritten while one of them is laid out", shortName(fn), o.Obj().Name(), fv.Name(), exported, fromArg))
		})
	}
	r.Min("api_functions_taking_image_config", n, 4)
}

// ---------------------------------------------------------------------------
// R-CROSS-CALL-STATE (C19, C20): a converter object processes the document element by element.  A
// field of that object which is written while converting AND read before being written in some
// function carries information from one element to the next.  Every such field must be in the
// frozen table below with the reason why that is intended; a new one (a buffer flushed too late,
// a value computed for the first table and reused for the next) is reported.
// ---------------------------------------------------------------------------

type stateField struct {
	Reason   string
	Balanced bool // every function that changes it restores it before returning (nesting depth)
}

var crossCallAllowed = map[string]map[string]stateField{
	"markdown.MarkdownWriter": {
		"output":    {Reason: "the output buffer itself: every element appends to it, in order"},
		"footnotes": {Reason: "footnote texts are collected while walking and emitted after the body by design"},
		"imageNum":  {Reason: "monotonic counter used only to name exported image files"},
	},
	"markdown.WordRenderer": {
		"listLevel": {Reason: "nesting depth of the list being rendered", Balanced: true},
	},
}

// ruleCrossCallStateEngine: the template engine (C16, C17).  `cache` is the published template table
// (guarded by the mutex, decided by the lock rule); anything else that survives from one render
// or load to the next — a memo of resolved or rendered text — must be invalidated by every
// operation that changes its inputs, which no structural rule here can show; it is reported.
func ruleCrossCallStateEngine(r *Run) {
	crossCallAllowed["document.TemplateEngine"] = map[string]stateField{
		"cache":    {Reason: "the table of loaded templates; access discipline is decided by the lock rule"},
		"basePath": {Reason: "configuration set by SetBasePath"},
		"mutex":    {Reason: "the lock itself"},
	}
	crossCallGeneric(r, pkgDoc, "TemplateEngine", []string{"(*TemplateEngine).RenderToDocument", "(*TemplateEngine).RenderTemplateToDocument", "(*TemplateEngine).LoadTemplate", "(*TemplateEngine).LoadTemplateFromDocument"})
}

func ruleCrossCallState(typ, entry string) func(r *Run) {
	return func(r *Run) { crossCallGeneric(r, pkgMd, typ, []string{entry}) }
}

// lazyDefaultStore: st stores into field f inside the nil branch of a test of that same field, and
// the stored value is a constant, a fresh object or the result of a call without arguments.
func lazyDefaultStore(fn *ssa.Function, f *types.Var, st *ssa.Store) bool {
	switch v := st.Val.(type) {
	case *ssa.Const, *ssa.Alloc, *ssa.MakeMap, *ssa.MakeSlice:
	case *ssa.Call:
		if len(v.Call.Args) != 0 {
			return false
		}
	default:
		return false
	}
	for _, b := range fn.Blocks {
		if len(b.Instrs) == 0 {
			continue
		}
		iff, ok := b.Instrs[len(b.Instrs)-1].(*ssa.If)
		if !ok {
			continue
		}
		bo, ok := iff.Cond.(*ssa.BinOp)
		if !ok || (bo.Op != token.EQL && bo.Op != token.NEQ) || (!isNilConst(bo.X) && !isNilConst(bo.Y)) {
			continue
		}
		opnd := bo.X
		if isNilConst(bo.X) {
			opnd = bo.Y
		}
		ld, ok := opnd.(*ssa.UnOp)
		if !ok || ld.Op != token.MUL {
			continue
		}
		if fv, _ := fieldOfAddr(ld.X); fv != f {
			continue
		}
		nilSucc := b.Succs[0]
		if bo.Op == token.NEQ {
			nilSucc = b.Succs[1]
		}
		if edgeRegion(b, nilSucc)[st.Block()] {
			return true
		}
	}
	return false
}

func crossCallGeneric(r *Run, pkg, typ string, entries []string) {
	{
		p := r.P
		named := p.Named(pkg, typ)
		var roots []*ssa.Function
		for _, e := range entries {
			if f := p.Func(pkg, e); f != nil {
				roots = append(roots, f)
			}
		}
		if named == nil || len(roots) == 0 {
			r.Unresolved(typ + " / " + strings.Join(entries, ","))
			return
		}
		st := named.Underlying().(*types.Struct)
		reach := p.cgReach(roots...)
		tname := pkg[strings.LastIndex(pkg, "/")+1:] + "." + typ
		nState := 0
		for i := 0; i < st.NumFields(); i++ {
			f := st.Field(i)
			type acc struct {
				fn    *ssa.Function
				in    ssa.Instruction
				write bool
			}
			var accs []acc
			for _, fn := range sortedFuncs(reach) {
				allInstrs(fn, func(in ssa.Instruction) {
					fa, ok := in.(*ssa.FieldAddr)
					if !ok {
						return
					}
					if fv, _ := fieldOfAddr(fa); fv != f {
						return
					}
					if fa.Referrers() == nil {
						return
					}
					for _, u := range *fa.Referrers() {
						switch x := u.(type) {
						case *ssa.Store:
							if x.Addr == ssa.Value(fa) {
								// `if w.f == nil { w.f = defaults() }`: a default filled in for a missing
								// configuration value — set once, from nothing computed during the run
								if lazyDefaultStore(fn, f, x) {
									continue
								}
								accs = append(accs, acc{fn, x, true})
							}
						case *ssa.UnOp:
							accs = append(accs, acc{fn, x, false})
							// a map (or slice) held in the field and updated in place
							if x.Referrers() != nil {
								for _, u2 := range *x.Referrers() {
									switch y := u2.(type) {
									case *ssa.MapUpdate:
										if y.Map == ssa.Value(x) {
											accs = append(accs, acc{fn, y, true})
										}
									case *ssa.Call:
										if b, ok := y.Call.Value.(*ssa.Builtin); ok && (b.Name() == "delete" || b.Name() == "clear") && len(y.Call.Args) > 0 && y.Call.Args[0] == ssa.Value(x) {
											accs = append(accs, acc{fn, y, true})
										}
									}
								}
							}
						case ssa.CallInstruction:
							// method call on the field's address (strings.Builder etc.): reads and writes
							accs = append(accs, acc{fn, x, false}, acc{fn, x, true})
						default:
							accs = append(accs, acc{fn, u, false})
						}
					}
				})
			}
			written := false
			for _, a := range accs {
				if a.write {
					written = true
				}
			}
			if !written {
				continue // set at construction only: configuration, not state
			}
			// read before write in some function?
			carries := false
			var witness acc
			for _, a := range accs {
				if a.write {
					continue
				}
				dominated := false
				for _, w := range accs {
					if !w.write || w.fn != a.fn || w.in == a.in {
						continue
					}
					if w.in.Block() == a.in.Block() && instrIndex(w.in) < instrIndex(a.in) || w.in.Block() != a.in.Block() && w.in.Block().Dominates(a.in.Block()) {
						dominated = true
					}
				}
				if !dominated {
					carries, witness = true, a
					break
				}
			}
			if !carries {
				continue // always assigned before use within one call: a scratch variable
			}
			nState++
			allowed, ok := crossCallAllowed[tname][f.Name()]
			key := tname + "." + f.Name()
			if !ok {
				r.Check("cross-call-state", key, f.Pos(), false,
					fmt.Sprintf("field %s is written while converting and read before being written in %s (%s): what was computed for one element is still there when the next one is processed (a buffer flushed too late reorders the output; a value kept from the first table is applied to the second)", f.Name(), shortName(witness.fn), p.pos(witness.in.Pos())))
				continue
			}
			okb, why := true, allowed.Reason
			if allowed.Balanced {
				okb, why = balancedField(p, f, reach)
				if okb {
					why = allowed.Reason + "; every function that changes it restores it on all paths"
				}
			}
			r.Check("cross-call-state", key, f.Pos(), okb, why)
		}
		r.Count("stateful_fields_"+typ, nState)
	}
}

// balancedField: in every function of reach that stores f, each `f = f + c` is matched by an
// `f = f - c` store that post-dominates it on every path to a return (checked as: from the
// incrementing store no return is reachable without passing a decrementing store).
func balancedField(p *Program, f *types.Var, reach map[*ssa.Function]bool) (bool, string) {
	for _, fn := range sortedFuncs(reach) {
		var incs, decs []*ssa.Store
		other := false
		allInstrs(fn, func(in ssa.Instruction) {
			st, ok := in.(*ssa.Store)
			if !ok {
				return
			}
			if fv, _ := fieldOfAddr(st.Addr); fv != f {
				return
			}
			bo, ok := st.Val.(*ssa.BinOp)
			if !ok {
				other = true
				return
			}
			if _, isC := constInt(bo.Y); !isC {
				other = true
				return
			}
			switch bo.Op {
			case token.ADD:
				incs = append(incs, st)
			case token.SUB:
				decs = append(decs, st)
			default:
				other = true
			}
		})
		if other {
			return false, fmt.Sprintf("%s assigns %s a value that is not current±constant", shortName(fn), f.Name())
		}
		if len(incs) == 0 && len(decs) == 0 {
			continue
		}
		cut := map[*ssa.BasicBlock]bool{}
		for _, d := range decs {
			cut[d.Block()] = true
		}
		// `defer func() { f-- }()`: the restoring store lives in a deferred literal; it runs on every
		// return that follows the defer statement
		var deferBlocks []*ssa.BasicBlock
		allInstrs(fn, func(in ssa.Instruction) {
			df, ok := in.(*ssa.Defer)
			if !ok {
				return
			}
			var lit *ssa.Function
			switch v := df.Call.Value.(type) {
			case *ssa.MakeClosure:
				lit, _ = v.Fn.(*ssa.Function)
			case *ssa.Function:
				lit = v
			}
			if lit == nil {
				return
			}
			restores := false
			allInstrs(lit, func(in2 ssa.Instruction) {
				if st, ok := in2.(*ssa.Store); ok {
					if fv, _ := fieldOfAddr(st.Addr); fv == f {
						if bo, ok := st.Val.(*ssa.BinOp); ok && bo.Op == token.SUB {
							restores = true
						}
					}
				}
			})
			if restores && df.Parent() == fn {
				deferBlocks = append(deferBlocks, df.Block())
			}
		})
		for _, inc := range incs {
			covered := false
			for _, db := range deferBlocks {
				if db == inc.Block() || db.Dominates(inc.Block()) || inc.Block().Dominates(db) && len(reachableBlocks(inc.Block(), map[*ssa.BasicBlock]bool{db: true})) == 1 {
					covered = true
				}
			}
			if covered {
				continue
			}
			if cut[inc.Block()] {
				continue
			}
			for b := range reachableBlocks(inc.Block(), cut) {
				if len(b.Instrs) > 0 {
					if _, isRet := b.Instrs[len(b.Instrs)-1].(*ssa.Return); isRet {
						return false, fmt.Sprintf("%s can return after incrementing %s without restoring it (%s)", shortName(fn), f.Name(), p.pos(inc.Pos()))
					}
				}
			}
		}
	}
	return true, ""
}

var _ = sort.Strings

// ---------------------------------------------------------------------------
// R-TYPED-NIL (C06): a reader that returns (*T, error) and whose result is converted to
// interface{} (body elements) must never return (nil, nil): the nil pointer becomes a non-nil
// interface value, passes the `element != nil` test, lands in Body.Elements and is dereferenced
// by the first accessor that type-asserts it.
// ---------------------------------------------------------------------------

func ruleTypedNil(r *Run) {
	p := r.P
	m := buildReaderModel(p)
	n := 0
	checked := map[*ssa.Function]bool{}
	for _, fn := range m.Funcs {
		allInstrs(fn, func(in ssa.Instruction) {
			mi, ok := in.(*ssa.MakeInterface)
			if !ok {
				return
			}
			if _, isPtr := mi.X.Type().Underlying().(*types.Pointer); !isPtr {
				return
			}
			ex, ok := mi.X.(*ssa.Extract)
			if !ok || ex.Index != 0 {
				return
			}
			call, ok := ex.Tuple.(*ssa.Call)
			if !ok {
				return
			}
			cal := staticCallee(call)
			if cal == nil || !p.inModule(cal) || checked[cal] {
				return
			}
			checked[cal] = true
			n++
			ei := errorResultIndex(cal.Signature)
			bad := ""
			for _, ret := range returnsOf(cal) {
				if ei < 0 || len(ret.Results) <= ei {
					continue
				}
				if !isNilConst(ret.Results[ei]) {
					continue // failure path (a non-constant error value is taken to be non-nil)
				}
				if mayBeNilPointer(ret.Results[0], 0) {
					bad = p.pos(ret.Pos())
				}
			}
			r.Check("typed-nil", shortName(cal), cal.Pos(), bad == "",
				fmt.Sprintf("%s returns a pointer that %s turns into an interface value; it must not return a nil pointer together with a nil error%s", shortName(cal), shortName(fn), map[bool]string{true: "", false: " but does at " + bad + ": the typed nil is stored as a body element and dereferenced later"}[bad == ""]))
		})
	}
	r.Min("reader_results_converted_to_interface", n, 3)
}

func mayBeNilPointer(v ssa.Value, depth int) bool {
	if depth > 6 {
		return false
	}
	switch x := v.(type) {
	case *ssa.Const:
		return x.IsNil()
	case *ssa.Phi:
		for _, e := range x.Edges {
			if mayBeNilPointer(e, depth+1) {
				return true
			}
		}
	case *ssa.ChangeType:
		return mayBeNilPointer(x.X, depth+1)
	}
	return false
}

// ---------------------------------------------------------------------------
// R-UNTRUSTED-SIZE (C06): sizes declared in the archive directory are attacker-controlled.  No
// allocation or slice bound on the Open path may be computed from a Size field of archive/zip's
// File / FileHeader: a directory entry claiming 2^62 bytes makes `make` panic (or exhausts memory)
// before a single byte has been read.
// ---------------------------------------------------------------------------

func ruleUntrustedSize(r *Run) {
	p := r.P
	root := r.mustFunc(pkgDoc, "openFromZipReader")
	if root == nil {
		return
	}
	roots := []*ssa.Function{root}
	for _, n := range []string{"Open", "OpenFromMemory"} {
		if f := p.Func(pkgDoc, n); f != nil {
			roots = append(roots, f)
		}
	}
	reach := p.cgReach(roots...)
	sl := newSlicer(p)
	sl.dataOnly = true
	n := 0
	for _, fn := range sortedFuncs(reach) {
		idx := 0
		allInstrs(fn, func(in ssa.Instruction) {
			var sizes []ssa.Value
			switch x := in.(type) {
			case *ssa.MakeSlice:
				sizes = []ssa.Value{x.Len, x.Cap}
			case *ssa.MakeMap:
				if x.Reserve != nil {
					sizes = []ssa.Value{x.Reserve}
				}
			case *ssa.MakeChan:
				sizes = []ssa.Value{x.Size}
			case *ssa.Call:
				// growing a buffer ahead of reading is an allocation of that size as well
				switch calleeName(x) {
				case "(*bytes.Buffer).Grow", "(*strings.Builder).Grow":
					if len(x.Call.Args) == 2 {
						sizes = []ssa.Value{x.Call.Args[1]}
					}
				case "slices.Grow":
					if len(x.Call.Args) == 2 {
						sizes = []ssa.Value{x.Call.Args[1]}
					}
				default:
					return
				}
				if len(sizes) == 0 {
					return
				}
			default:
				return
			}
			n++
			idx++
			bad := ""
			for _, sz := range sizes {
				if sz == nil {
					continue
				}
				if _, isC := sz.(*ssa.Const); isC {
					continue
				}
				if clampedSize(sz, 0) {
					continue // bounded by a constant (if n > max { n = max }, min(n, max)): a hint, not a demand
				}
				if guardedBelowConst(sz, in.Block()) {
					continue // if n > max { return fallback() } in front of the allocation: bounded on this path
				}
				for v := range sl.Slice(sz).Vals {
					var fv *types.Var
					switch y := v.(type) {
					case *ssa.FieldAddr:
						fv, _ = fieldOfAddr(y)
					case *ssa.Field:
						fv, _ = fieldOfVal(y)
					}
					if fv != nil && fv.Pkg() != nil && fv.Pkg().Path() == "archive/zip" && strings.Contains(fv.Name(), "Size") {
						bad = "archive/zip." + fv.Name()
					}
					// the size comes in as a parameter of a reading helper (readAllSized(rc, n)): what do the
					// callers hand in?
					if par, ok := v.(*ssa.Parameter); ok && par.Parent() == fn && fn.Parent() == nil {
						pi := paramIndex(fn, par)
						for _, cs := range staticCallSites(p, fn) {
							if pi < 0 || pi >= len(cs.Common().Args) {
								continue
							}
							a := cs.Common().Args[pi]
							if clampedSize(a, 0) {
								continue
							}
							for v2 := range sl.Slice(a).Vals {
								var f2 *types.Var
								switch y := v2.(type) {
								case *ssa.FieldAddr:
									f2, _ = fieldOfAddr(y)
								case *ssa.Field:
									f2, _ = fieldOfVal(y)
								}
								if f2 != nil && f2.Pkg() != nil && f2.Pkg().Path() == "archive/zip" && strings.Contains(f2.Name(), "Size") {
									bad = "archive/zip." + f2.Name() + " (handed in by " + shortName(topLevel(cs.Parent())) + ")"
								}
							}
						}
					}
				}
			}
			r.Check("untrusted-size", fmt.Sprintf("%s:make#%d", shortName(fn), idx), in.Pos(), bad == "",
				fmt.Sprintf("allocation in %s on the Open path%s", shortName(fn), map[bool]string{true: " does not depend on sizes declared by the archive", false: " is sized from " + bad + ", a value the archive's author chooses: a forged directory entry makes Open panic (makeslice: cap out of range) or exhaust memory instead of returning an error"}[bad == ""]))
		})
	}
	r.Min("allocations_on_open_path", n, 3)
}

// ---------------------------------------------------------------------------
// R-REL-APPEND-ONLY (C02, C04): once a relationship is in a document's list it stays there with
// its id, type and target — references in the body (and in parts the library does not parse)
// point at it.  Outside the reader, the constructors and the clone code, the only thing that may
// be done to a Relationships.Relationships list of an existing document is to append to it.
// ---------------------------------------------------------------------------

func ruleRelAppendOnly(r *Run) {
	p := r.P
	reader := buildReaderModel(p)
	clones := map[*ssa.Function]bool{}
	for _, c := range discoverClones(p, pkgDoc) {
		clones[c.Fn] = true
	}
	n := 0
	for _, fn := range p.ModFuncs() {
		if fn.Pkg == nil || fn.Pkg.Pkg.Path() != pkgDoc {
			continue
		}
		top := topLevel(fn)
		idx := 0
		allInstrs(fn, func(in ssa.Instruction) {
			st, ok := in.(*ssa.Store)
			if !ok {
				return
			}
			// a field of an existing entry rewritten in place: rels[i].Target = …
			if fa, ok := st.Addr.(*ssa.FieldAddr); ok {
				if ia, ok := fa.X.(*ssa.IndexAddr); ok {
					if ffv, _ := fieldOfAddr(fa); ffv != nil && fieldIs(p, ffv, pkgDoc, "Relationship", ffv.Name()) {
						lst := ia.X
						if ld, ok := lst.(*ssa.UnOp); ok {
							lst = ld.X
						}
						if ch, root := addrChain(lst); len(ch) > 0 && fieldIs(p, ch[len(ch)-1], pkgDoc, "Relationships", "Relationships") {
							_, fresh := stripLoads(root).(*ssa.Alloc)
							if !(fresh && len(ch) == 1) && !reader.IsReader[top] && !clones[top] && !strings.HasPrefix(top.Name(), "parse") {
								n++
								idx++
								r.Check("rel-append-only", fmt.Sprintf("%s#%d:rewrite-%s", shortName(top), idx, ffv.Name()), st.Pos(), false,
									fmt.Sprintf("%s overwrites the %s of a relationship that is already in the list: relationships of an opened package keep their id, type, target and mode — the part the old target named is orphaned, and whatever refers to the relationship now resolves elsewhere", shortName(top), ffv.Name()))
							}
						}
					}
				}
			}
			// element store list[i] = … or field store list = …
			target := st.Addr
			elemStore := false
			if ia, ok := target.(*ssa.IndexAddr); ok {
				target, elemStore = ia.X, true
				if ld, ok := target.(*ssa.UnOp); ok {
					target = ld.X
				}
			}
			ch, root := addrChain(target)
			if len(ch) == 0 || !fieldIs(p, ch[len(ch)-1], pkgDoc, "Relationships", "Relationships") {
				return
			}
			// a list being built for a struct created here (constructors, parse results, clones)
			if _, fresh := stripLoads(root).(*ssa.Alloc); fresh && len(ch) == 1 {
				return
			}
			if reader.IsReader[top] || clones[top] || strings.HasPrefix(top.Name(), "parse") {
				return
			}
			n++
			idx++
			shape := "rebuild"
			if elemStore {
				shape = "replace-at-index"
			} else if c, ok := st.Val.(*ssa.Call); ok {
				if b, ok := c.Call.Value.(*ssa.Builtin); ok && b.Name() == "append" {
					if ld, ok := c.Call.Args[0].(*ssa.UnOp); ok && pathString(ld.X) == pathString(st.Addr) {
						shape = "append-at-end"
					}
				}
			} else if _, ok := st.Val.(*ssa.MakeSlice); ok {
				shape = "init"
			} else if _, ok := st.Val.(*ssa.Slice); ok {
				if c, isConstLit := stripLoads(st.Val.(*ssa.Slice).X).(*ssa.Alloc); isConstLit && c != nil {
					shape = "init" // composite literal []Relationship{…}
				}
			}
			okc := shape == "append-at-end" || (shape == "init" && isDocConstructor(top))
			r.Check("rel-append-only", fmt.Sprintf("%s#%d:%s", shortName(top), idx, shape), st.Pos(), okc,
				fmt.Sprintf("%s changes a relationship list by %s; relationships of an existing document may only be appended (removing or rewriting one leaves the references that use its id dangling and loses relationships of an opened package)", shortName(top), shape))
		})
	}
	r.Min("relationship_list_stores", n, 4)
}

// isDocConstructor: functions that create the Document they fill (New, openFromZipReader, …).
func isDocConstructor(fn *ssa.Function) bool {
	res := fn.Signature.Results()
	for i := 0; i < res.Len(); i++ {
		if typeIs(res.At(i).Type(), pkgDoc, "Document") {
			return true
		}
	}
	return false
}

// ---------------------------------------------------------------------------
// R-ALLOC-SCANS-ALL (C02, C10, C11): an allocator that derives a fresh id from the ids present must
// look at EVERY id.  In each function that computes a string from a []Relationship parameter, the
// loops that read Relationship.ID must not be left early (break / return inside the body):
// ids of an opened package are in no particular order.
// ---------------------------------------------------------------------------

func ruleAllocScansAll(r *Run) {
	p := r.P
	n := 0
	for _, fn := range p.ModFuncs() {
		if fn.Pkg == nil || fn.Pkg.Pkg.Path() != pkgDoc || fn.Parent() != nil {
			continue
		}
		if fn.Signature.Results().Len() != 1 || !isStringType(fn.Signature.Results().At(0).Type()) {
			continue
		}
		takesRels := false
		for _, par := range fn.Params {
			if s, ok := par.Type().Underlying().(*types.Slice); ok && typeIs(s.Elem(), pkgDoc, "Relationship") {
				takesRels = true
			}
		}
		if !takesRels {
			continue
		}
		for li, l := range naturalLoops(fn) {
			readsID := false
			for b := range l.Body {
				for _, in := range b.Instrs {
					var fv *types.Var
					switch x := in.(type) {
					case *ssa.FieldAddr:
						fv, _ = fieldOfAddr(x)
					case *ssa.Field:
						fv, _ = fieldOfVal(x)
					}
					if fieldIs(p, fv, pkgDoc, "Relationship", "ID") {
						readsID = true
					}
				}
			}
			if !readsID {
				continue
			}
			n++
			early := ""
			for b := range l.Body {
				if b == l.Header {
					continue
				}
				for _, s := range b.Succs {
					if !l.Body[s] {
						early = p.pos(b.Instrs[len(b.Instrs)-1].Pos())
						if early == "" || early == "-" {
							early = fmt.Sprintf("block %d", b.Index)
						}
					}
				}
			}
			// a result decided before the scan: a return reachable from the entry without entering
			// the loop, on a path that already looked at an element's id (an empty-list early
			// return reads none and is fine).
			avoid := reachableBlocks(fn.Blocks[0], map[*ssa.BasicBlock]bool{l.Header: true})
			bypassRet, bypassRead := false, token.NoPos
			for _, b := range fn.Blocks {
				if !avoid[b] {
					continue
				}
				for _, in := range b.Instrs {
					switch x := in.(type) {
					case *ssa.Return:
						bypassRet = true
					case *ssa.FieldAddr:
						if fv, _ := fieldOfAddr(x); fieldIs(p, fv, pkgDoc, "Relationship", "ID") {
							bypassRead = x.Pos()
						}
					case *ssa.Field:
						if fv, _ := fieldOfVal(x); fieldIs(p, fv, pkgDoc, "Relationship", "ID") {
							bypassRead = x.Pos()
						}
					}
				}
			}
			byp := bypassRet && bypassRead != token.NoPos
			r.Check("alloc-scans-all", fmt.Sprintf("%s:loop#%d:no-bypass", shortName(fn), li), l.Header.Instrs[0].Pos(), !byp,
				fmt.Sprintf("%s %s", shortName(fn), map[bool]string{false: "decides its result only after the scanning loop (or without looking at any id)", true: "can return an id derived from a single element's id (" + p.pos(bypassRead) + ") without running the loop that visits every element: with ids in arbitrary order an id that is already taken is handed out"}[byp]))
			r.Check("alloc-scans-all", fmt.Sprintf("%s:loop#%d", shortName(fn), li), l.Header.Instrs[0].Pos(), early == "",
				fmt.Sprintf("%s derives a new id from the ids in the list; the loop that reads them %s", shortName(fn), map[bool]string{true: "visits every element", false: "can be left before every element has been seen (" + early + "): with ids in arbitrary order (any package written by another application) an id that is already taken is handed out"}[early == ""]))
		}
	}
	r.Min("id_scanning_loops", n, 1)
}

// ---------------------------------------------------------------------------
// R-SAVE-TRUNCATE (C01, C05): the file Save writes the archive into must start empty.  Opening
// an existing, longer file without O_TRUNC leaves the old tail (with the old central directory)
// after the new archive: the result is not a readable ZIP although every write succeeded.
// ---------------------------------------------------------------------------

func ruleSaveTruncate(r *Run) {
	p := r.P
	root := r.mustFunc(pkgDoc, "(*Document).Save")
	if root == nil {
		return
	}
	n := 0
	for _, fn := range sortedFuncs(p.staticReach(root)) {
		allInstrs(fn, func(in ssa.Instruction) {
			c, ok := in.(ssa.CallInstruction)
			if !ok {
				return
			}
			switch calleeName(c) {
			case "os.Create":
				n++
				r.Check("save-truncate", shortName(fn)+":os.Create", c.Pos(), true, "os.Create truncates an existing file")
			case "os.OpenFile":
				n++
				flag, isConst := constInt(c.Common().Args[1])
				const oTRUNC, oEXCL, oAPPEND = 0x200, 0x80, 0x400
				okc := isConst && (flag&oTRUNC != 0 || flag&oEXCL != 0) && flag&oAPPEND == 0
				r.Check("save-truncate", shortName(fn)+":os.OpenFile", c.Pos(), okc,
					fmt.Sprintf("os.OpenFile flags=%#x (constant=%v): without O_TRUNC (or O_EXCL) an existing longer file keeps its tail after the new archive and the saved package is unreadable", flag, isConst))
			}
		})
	}
	r.Min("file_creations_in_save", n, 1)
}

// save-target: the file Save creates is the one the caller named.  The path handed to the creating
// call denotes the filename parameter — the parameter itself, possibly through path-normalising
// library calls (Clean, Abs, FromSlash) and module helpers that return only such values.  A path
// computed from it (an appended extension, another directory) is accepted only as a temporary that
// is renamed onto a path denoting the parameter.  Otherwise Save reports success while the path the
// caller passed holds no (or the old) file.
func ruleSaveTarget(r *Run) {
	p := r.P
	root := r.mustFunc(pkgDoc, "(*Document).Save")
	if root == nil || len(root.Params) < 2 {
		return
	}
	var denotes func(v ssa.Value, par *ssa.Parameter, depth int) bool
	denotes = func(v ssa.Value, par *ssa.Parameter, depth int) bool {
		v = stripConv(v)
		if v == ssa.Value(par) {
			return true
		}
		if depth > 4 {
			return false
		}
		switch x := v.(type) {
		case *ssa.UnOp:
			// a parameter captured by a closure lives in a cell: the load of a cell whose stores all
			// denote the parameter
			if al, ok := x.X.(*ssa.Alloc); ok && x.Op == token.MUL && al.Referrers() != nil {
				stores := 0
				for _, u := range *al.Referrers() {
					if st, ok := u.(*ssa.Store); ok && st.Addr == ssa.Value(al) {
						stores++
						if !denotes(st.Val, par, depth+1) {
							return false
						}
					}
				}
				return stores > 0
			}
		case *ssa.Phi:
			for _, e := range x.Edges {
				if !denotes(e, par, depth+1) {
					return false
				}
			}
			return len(x.Edges) > 0
		case *ssa.Extract:
			if c, ok := x.Tuple.(*ssa.Call); ok && x.Index == 0 {
				switch calleeName(c) {
				case "path/filepath.Abs", "path/filepath.EvalSymlinks":
					return denotes(c.Call.Args[0], par, depth+1)
				}
			}
		case *ssa.Call:
			switch calleeName(x) {
			case "path/filepath.Clean", "path/filepath.FromSlash", "path.Clean":
				return denotes(x.Call.Args[0], par, depth+1)
			}
			cal := staticCallee(x)
			if cal == nil || !p.inModule(cal) || len(cal.Blocks) == 0 || cal.Signature.Results().Len() != 1 {
				return false
			}
			// a module helper: every result denotes one of its parameters whose argument denotes par
			for _, ret := range returnsOf(cal) {
				okr := false
				for k, cp := range cal.Params {
					if k < len(x.Call.Args) && denotes(retResult(ret, 0), cp, depth+1) && denotes(x.Call.Args[k], par, depth+1) {
						okr = true
					}
				}
				if !okr {
					return false
				}
			}
			return true
		}
		return false
	}
	par := root.Params[1]
	reach := p.staticReach(root)
	reach[root] = true
	// denotesRoot: v (a value of fn) denotes Save's filename parameter — in Save itself, or through
	// the parameter of a helper at every call of that helper from code Save reaches
	var denotesRoot func(fn *ssa.Function, v ssa.Value, depth int) bool
	denotesRoot = func(fn *ssa.Function, v ssa.Value, depth int) bool {
		if fn == root {
			return denotes(v, par, 0)
		}
		if depth > 3 {
			return false
		}
		for k, fp := range fn.Params {
			if !denotes(v, fp, 0) {
				continue
			}
			sites, all := 0, true
			for g := range reach {
				if !p.inModule(g) {
					continue
				}
				allInstrs(g, func(in ssa.Instruction) {
					c, ok := in.(ssa.CallInstruction)
					if !ok || staticCallee(c) != fn || k >= len(c.Common().Args) {
						return
					}
					sites++
					if !denotesRoot(g, c.Common().Args[k], depth+1) {
						all = false
					}
				})
			}
			if sites > 0 && all {
				return true
			}
		}
		return false
	}
	type site struct {
		pos  token.Pos
		what string
		ok   bool
	}
	var creates []site
	renameOK := false
	for _, fn := range sortedFuncs(reach) {
		if !p.inModule(fn) {
			continue
		}
		allInstrs(fn, func(in ssa.Instruction) {
			c, ok := in.(ssa.CallInstruction)
			if !ok {
				return
			}
			switch calleeName(c) {
			case "os.Create", "os.OpenFile", "os.WriteFile":
				creates = append(creates, site{c.Pos(), shortName(fn) + ":" + calleeName(c), denotesRoot(fn, c.Common().Args[0], 0)})
			case "os.Rename":
				if denotesRoot(fn, c.Common().Args[1], 0) {
					renameOK = true
				}
			}
		})
	}
	for i, s := range creates {
		okc := s.ok || renameOK
		r.Check("save-target", fmt.Sprintf("%s#%d", s.what, i+1), s.pos, okc,
			fmt.Sprintf("%s on the Save path: %s", s.what, map[bool]string{true: "the file created is the one named by Save's filename parameter (or a temporary renamed onto it)", false: "the path is computed from the filename parameter (not the parameter itself up to Clean/Abs) and nothing renames the result onto it — Save returns nil while the path the caller passed holds no file, or still the old one"}[okc]))
	}
	r.Min("file_creations_in_save_body", len(creates), 1)
}

// ---------------------------------------------------------------------------
// R-SKIP-BALANCED (C04, C06): the routine that skips an unknown element must balance start and end
// tags.  Stopping at the first end tag with the element's own name ends too early when the
// element contains a nested element of the same name (table in table in table, AlternateContent in
// AlternateContent): the caller then takes the rest of the real element for unknown content.
// Accepted shapes: a depth counter incremented in the StartElement case and decremented in the
// EndElement case (both feeding the same loop-carried variable), or recursion in the StartElement
// case.
// ---------------------------------------------------------------------------

func ruleSkipBalanced(r *Run) {
	p := r.P
	fn := r.mustFunc(pkgDoc, "(*Document).skipElement")
	if fn == nil {
		return
	}
	var startRegion, endRegion map[*ssa.BasicBlock]bool
	allInstrs(fn, func(in ssa.Instruction) {
		ta, ok := in.(*ssa.TypeAssert)
		if !ok || !ta.CommaOk {
			return
		}
		var okIf *ssa.If
		if ta.Referrers() != nil {
			for _, u := range *ta.Referrers() {
				if ex, ok := u.(*ssa.Extract); ok && ex.Index == 1 && ex.Referrers() != nil {
					for _, u2 := range *ex.Referrers() {
						if x, ok := u2.(*ssa.If); ok {
							okIf = x
						}
					}
				}
			}
		}
		if okIf == nil {
			return
		}
		region := edgeRegion(okIf.Block(), okIf.Block().Succs[0])
		if len(region) == 0 {
			region = map[*ssa.BasicBlock]bool{okIf.Block().Succs[0]: true}
		}
		switch {
		case typeIs(ta.AssertedType, "encoding/xml", "StartElement"):
			startRegion = region
		case typeIs(ta.AssertedType, "encoding/xml", "EndElement"):
			endRegion = region
		}
	})
	okc, why := false, ""
	switch {
	case startRegion == nil:
		why = "it has no case for xml.StartElement: nested elements are not counted"
	default:
		// recursion in the StartElement case
		for b := range startRegion {
			for _, in := range b.Instrs {
				if c, ok := in.(ssa.CallInstruction); ok && staticCallee(c) == fn {
					okc = true
				}
			}
		}
		// or a counter: header phi with +c from the start region and -c from the end region
		if !okc && endRegion != nil {
			for _, l := range naturalLoops(fn) {
				for _, in := range l.Header.Instrs {
					ph, ok := in.(*ssa.Phi)
					if !ok {
						continue
					}
					inc, dec := false, false
					for _, e := range ph.Edges {
						bo, ok := e.(*ssa.BinOp)
						if !ok || bo.X != ssa.Value(ph) {
							continue
						}
						if _, isC := constInt(bo.Y); !isC {
							continue
						}
						if bo.Op == token.ADD && startRegion[bo.Block()] {
							inc = true
						}
						if bo.Op == token.SUB && endRegion[bo.Block()] {
							dec = true
						}
					}
					if inc && dec {
						okc = true
					}
				}
			}
		}
		if !okc {
			why = "start tags do not feed the condition that ends the skipping (no depth counter shared by the StartElement and EndElement cases, no recursion)"
		}
	}
	r.Check("skip-balanced", shortName(fn), fn.Pos(), okc,
		fmt.Sprintf("%s must balance start and end tags%s", shortName(fn), map[bool]string{true: ": depth is tracked", false: " — " + why + "; an element that contains a nested element of the same name is left too early and the remainder of the enclosing table or paragraph is lost"}[okc]))
	_ = p
}

// ---------------------------------------------------------------------------
// R-CHARDATA-VERBATIM (C03): text read from a w:t (and every other ,chardata field) is stored as
// read.  A reader that trims, folds or rewrites it changes the text of documents the library
// itself wrote (cell text is written without xml:space="preserve").
// ---------------------------------------------------------------------------

func ruleCharDataVerbatim(r *Run) {
	p := r.P
	m := buildReaderModel(p)
	sl := newSlicer(p)
	n := 0
	for _, fn := range m.Funcs {
		allInstrs(fn, func(in ssa.Instruction) {
			st, ok := in.(*ssa.Store)
			if !ok {
				return
			}
			fv, _ := fieldOfAddr(st.Addr)
			if fv == nil {
				return
			}
			o := fieldOwner(p, fv)
			if o == nil {
				return
			}
			stt := o.Underlying().(*types.Struct)
			chardata := false
			for i := 0; i < stt.NumFields(); i++ {
				if stt.Field(i) == fv && parseXMLTag(stt.Tag(i)).CharData {
					chardata = true
				}
			}
			if !chardata {
				return
			}
			n++
			bad := ""
			for v := range sl.Slice(st.Val).Vals {
				c, ok := v.(*ssa.Call)
				if !ok {
					continue
				}
				cn := calleeName(c)
				for _, pk := range []string{"strings.", "bytes.", "unicode.", "regexp.", "(*regexp.", "(*strings.Replacer)", "html."} {
					if strings.HasPrefix(cn, pk) {
						bad = cn
					}
				}
			}
			r.Check("chardata-verbatim", shortName(fn)+":"+o.Obj().Name()+"."+fv.Name(), st.Pos(), bad == "",
				fmt.Sprintf("%s stores the character data of <%s> into %s.%s%s", shortName(fn), o.Obj().Name(), o.Obj().Name(), fv.Name(), map[bool]string{true: " as read", false: " after passing it through " + bad + ": leading/trailing or inner characters of the saved text differ after Open"}[bad == ""]))
		})
	}
	r.Min("chardata_stores_in_reader", n, 1)
}

// ---------------------------------------------------------------------------
// R-MARSHAL-GUARD (C03): a hand-written MarshalXML may skip a field only because the field itself
// is absent (nil / empty / zero length).  A guard that calls a predicate on the field's struct
// ("isEmpty") is accepted only if that predicate looks at EVERY marshalled field of the struct;
// otherwise a value whose only set attribute is the forgotten one is silently not written.
// ---------------------------------------------------------------------------

func ruleMarshalGuard(r *Run) {
	p := r.P
	n := 0
	for _, fn := range p.ModFuncs() {
		if fn.Name() != "MarshalXML" || fn.Signature.Recv() == nil || fn.Pkg == nil || len(fn.Params) == 0 {
			continue
		}
		recv := fn.Params[0]
		rn := isModStruct(p, recv.Type())
		if rn == nil {
			continue
		}
		idx := 0
		allInstrs(fn, func(in ssa.Instruction) {
			c, ok := in.(ssa.CallInstruction)
			if !ok || !strings.Contains(calleeName(c), "encoding/xml.Encoder).Encode") || calleeName(c) == "(*encoding/xml.Encoder).EncodeToken" {
				return
			}
			idx++
			n++
			bad := ""
			for _, cond := range controlConds(c) {
				// calls inside the condition (intra-procedural slice)
				seen := map[ssa.Value]bool{}
				var walk func(v ssa.Value)
				walk = func(v ssa.Value) {
					if v == nil || seen[v] {
						return
					}
					seen[v] = true
					if call, ok := v.(*ssa.Call); ok {
						if cal := staticCallee(call); cal != nil && p.inModule(cal) {
							if miss := predicateMisses(p, cal); miss != "" {
								bad = fmt.Sprintf("%s, which does not look at %s", shortName(cal), miss)
							}
							return
						}
						// the guard tests a TRANSFORMATION of the text (strings.TrimSpace(content) == ""):
						// values the transformation maps to "empty" are non-empty text that is then not written
						// (TrimSpace also removes U+00A0 and U+3000, which are not XML white space)
						switch cn := calleeName(call); {
						case strings.HasPrefix(cn, "strings.Trim"), cn == "strings.Fields", cn == "strings.ToLower", cn == "strings.ToUpper", strings.HasPrefix(cn, "strings.Replace"), strings.HasPrefix(cn, "unicode."):
							for _, a := range call.Call.Args {
								if ch, _ := addrChain(stripLoadAddr(a)); len(ch) > 0 && isStringType(a.Type()) {
									bad = fmt.Sprintf("%s of the field says so (the test is made on a transformed copy of the text, not on the text)", cn)
								}
							}
						}
					}
					if ins, ok := v.(ssa.Instruction); ok {
						for _, op := range ins.Operands(nil) {
							if *op != nil {
								walk(*op)
							}
						}
					}
				}
				walk(cond)
			}
			r.Check("marshal-guard", fmt.Sprintf("%s#%d", shortName(fn), idx), c.Pos(), bad == "",
				fmt.Sprintf("encoding step %d of %s%s", idx, shortName(fn), map[bool]string{true: " is conditional only on the presence of what it encodes", false: " is skipped when " + bad + ": a value whose only setting is that field is not written to the part"}[bad == ""]))
		})
	}
	r.Min("encode_steps_in_custom_marshalers", n, 10)
}

// predicateMisses: for a module predicate with a receiver/parameter of module struct type T that
// returns bool, the XML-marshalled fields of T it never reads ("" when it reads them all, or when
// it is not such a predicate).
func predicateMisses(p *Program, cal *ssa.Function) string {
	if cal.Signature.Results().Len() != 1 {
		return ""
	}
	if b, ok := cal.Signature.Results().At(0).Type().Underlying().(*types.Basic); !ok || b.Kind() != types.Bool {
		return ""
	}
	if len(cal.Params) == 0 {
		return ""
	}
	n := isModStruct(p, cal.Params[0].Type())
	if n == nil {
		return ""
	}
	st := n.Underlying().(*types.Struct)
	read := map[*types.Var]bool{}
	allInstrs(cal, func(in ssa.Instruction) {
		switch x := in.(type) {
		case *ssa.FieldAddr:
			if fv, _ := fieldOfAddr(x); fv != nil {
				read[fv] = true
			}
		case *ssa.Field:
			if fv, _ := fieldOfVal(x); fv != nil {
				read[fv] = true
			}
		}
	})
	var missing []string
	for i := 0; i < st.NumFields(); i++ {
		f := st.Field(i)
		tag := parseXMLTag(st.Tag(i))
		if f.Name() == "XMLName" || tag.Skip || !f.Exported() {
			continue
		}
		if !read[f] {
			missing = append(missing, typeName(n)+"."+f.Name())
		}
	}
	return strings.Join(missing, ", ")
}

// ---------------------------------------------------------------------------
// R-NO-ELEMENT-CACHE (C08): the element list is the single source of truth for what is in the body.
// A Document field that points at a body element (a remembered section-properties object, a "last
// paragraph") goes stale as soon as that element is removed or replaced through the list, and
// later calls then write to an object that is no longer in the document.  Decided on the type:
// no field of Document other than Body may reach a body element kind.
// ---------------------------------------------------------------------------

func ruleNoElementCache(r *Run) {
	p := r.P
	doc := p.Named(pkgDoc, "Document")
	if doc == nil {
		r.Unresolved("document.Document")
		return
	}
	kinds := bodyKinds(p)
	st := doc.Underlying().(*types.Struct)
	n := 0
	for i := 0; i < st.NumFields(); i++ {
		f := st.Field(i)
		if f.Name() == "Body" {
			continue
		}
		n++
		hit := ""
		seen := map[types.Type]bool{}
		var walk func(t types.Type, depth int)
		walk = func(t types.Type, depth int) {
			if seen[t] || depth > 3 || hit != "" {
				return
			}
			seen[t] = true
			switch x := t.(type) {
			case *types.Pointer:
				walk(x.Elem(), depth)
			case *types.Slice:
				walk(x.Elem(), depth)
			case *types.Array:
				walk(x.Elem(), depth)
			case *types.Map:
				walk(x.Elem(), depth)
			case *types.Named:
				if _, isKind := kinds[x]; isKind {
					hit = typeName(x)
					return
				}
				// one level into the document's own helper structs (managers) only
				if sn := isModStruct(p, x); sn != nil && sn.Obj().Pkg().Path() == pkgDoc && depth < 1 {
					su := sn.Underlying().(*types.Struct)
					for j := 0; j < su.NumFields(); j++ {
						walk(su.Field(j).Type(), depth+1)
					}
				}
			}
		}
		walk(f.Type(), 0)
		r.Trivial("no-element-cache", "Document."+f.Name(), f.Pos(), hit == "",
			fmt.Sprintf("field Document.%s %s", f.Name(), map[bool]string{true: "does not point at body elements", false: "can hold a " + hit + " outside Body.Elements: after the element is removed from (or replaced in) the list, calls that use this field write to an object that is not part of the document any more"}[hit == ""]))
	}
	r.Min("document_fields", n, 7)
}

// ---------------------------------------------------------------------------
// R-LOOP-FRESH (C09): a cell, row, paragraph or run that is inserted into a table inside a loop must
// be constructed inside that loop.  Appending one struct value several times makes the inserted
// elements share its pointers (cell properties) and slice backing arrays (paragraphs): writing one
// restored cell then changes its siblings.
// ---------------------------------------------------------------------------

func ruleLoopFresh(r *Run) {
	p := r.P
	n := 0
	for _, fn := range p.ModFuncs() {
		if fn.Pkg == nil || fn.Pkg.Pkg.Path() != pkgDoc || fn.Parent() != nil {
			continue
		}
		if fn.Signature.Recv() == nil || !typeIs(fn.Signature.Recv().Type(), pkgDoc, "Table") {
			if !strings.Contains(fn.Name(), "Table") {
				continue
			}
		}
		loops := naturalLoops(fn)
		if len(loops) == 0 {
			continue
		}
		idx := 0
		allInstrs(fn, func(in ssa.Instruction) {
			var elems []ssa.Value
			switch x := in.(type) {
			case *ssa.Call:
				if b, ok := x.Call.Value.(*ssa.Builtin); ok && b.Name() == "append" && len(x.Call.Args) > 1 {
					elems = varargElems(x.Call.Args[1])
				}
			case *ssa.Store:
				if _, ok := x.Addr.(*ssa.IndexAddr); ok {
					elems = []ssa.Value{x.Val}
				}
			}
			for _, e := range elems {
				if e == nil {
					continue
				}
				sn := isModStruct(p, e.Type())
				if sn == nil || !isPointerLike(e.Type()) {
					continue
				}
				if _, isPtr := e.Type().Underlying().(*types.Pointer); isPtr {
					continue
				}
				// innermost loop containing the insertion
				var l *natLoop
				for _, cand := range loops {
					if cand.Body[in.Block()] && (l == nil || len(cand.Body) < len(l.Body)) {
						l = cand
					}
				}
				if l == nil {
					continue
				}
				idx++
				n++
				// where is the inserted value made?
				invariant := false
				switch v := e.(type) {
				case *ssa.UnOp:
					if al, ok := v.X.(*ssa.Alloc); ok && v.Op == token.MUL {
						// a local struct variable: invariant if nothing stores to it inside the loop
						inside := l.Body[al.Block()]
						if al.Referrers() != nil {
							for _, u := range *al.Referrers() {
								switch w := u.(type) {
								case *ssa.Store:
									if l.Body[w.Block()] {
										inside = true
									}
								case *ssa.FieldAddr, *ssa.IndexAddr:
									if uv, ok := u.(ssa.Value); ok && uv.Referrers() != nil {
										for _, u2 := range *uv.Referrers() {
											if st, ok := u2.(*ssa.Store); ok && l.Body[st.Block()] {
												inside = true
											}
										}
									}
								}
							}
						}
						invariant = !inside
					}
				default:
					if ins, ok := e.(ssa.Instruction); ok {
						invariant = !l.Body[ins.Block()]
					}
				}
				// built in the loop, but from pointers made once outside it (a shared *TableCellProperties)
				sharedField := ""
				if !invariant {
					if ld, ok := e.(*ssa.UnOp); ok {
						if al, ok := ld.X.(*ssa.Alloc); ok && al.Referrers() != nil {
							for _, u := range *al.Referrers() {
								fa, ok := u.(*ssa.FieldAddr)
								if !ok || fa.Referrers() == nil {
									continue
								}
								for _, u2 := range *fa.Referrers() {
									st, ok := u2.(*ssa.Store)
									if !ok || st.Addr != ssa.Value(fa) || !l.Body[st.Block()] {
										continue
									}
									if _, isPtr := st.Val.Type().Underlying().(*types.Pointer); !isPtr {
										continue
									}
									if madeOutside(st.Val, l) {
										fv, _ := fieldOfAddr(fa)
										sharedField = fv.Name()
									}
								}
							}
						}
					}
				}
				if sharedField != "" {
					r.Check("loop-fresh", fmt.Sprintf("%s#%d:%s.%s", shortName(fn), idx, sn.Obj().Name(), sharedField), in.Pos(), false,
						fmt.Sprintf("%s inserts a %s per iteration whose %s pointer is created once, outside the loop: all inserted elements share that object, so a merge or a property change on one of them shows up on all", shortName(fn), typeName(sn), sharedField))
					continue
				}
				r.Check("loop-fresh", fmt.Sprintf("%s#%d:%s", shortName(fn), idx, sn.Obj().Name()), in.Pos(), !invariant,
					fmt.Sprintf("%s inserts a %s inside a loop; the value %s", shortName(fn), typeName(sn), map[bool]string{false: "is built in the loop (each inserted element has its own properties and content)", true: "is built once outside the loop, so every inserted element shares its property pointers and paragraph storage: editing one of them changes the others"}[invariant]))
			}
		})
	}
	// Second form: an element of the table that already exists is given, in a loop, a slice / map /
	// pointer value that was made ONCE outside the loop (`empty := []Paragraph{{}}; for … { cell.Paragraphs
	// = empty }`): all the elements then share one backing store, and writing the text of one cell
	// changes the others.
	for _, fn := range p.ModFuncs() {
		if fn.Pkg == nil || fn.Pkg.Pkg.Path() != pkgDoc || fn.Parent() != nil {
			continue
		}
		if fn.Signature.Recv() == nil || !typeIs(fn.Signature.Recv().Type(), pkgDoc, "Table") {
			continue
		}
		loops := naturalLoops(fn)
		idx := 0
		allInstrs(fn, func(in ssa.Instruction) {
			st, ok := in.(*ssa.Store)
			if !ok {
				return
			}
			fa, ok := st.Addr.(*ssa.FieldAddr)
			if !ok {
				return
			}
			switch st.Val.Type().Underlying().(type) {
			case *types.Slice, *types.Map, *types.Pointer:
			default:
				return
			}
			var l *natLoop
			for _, cand := range loops {
				if cand.Body[st.Block()] && (l == nil || len(cand.Body) < len(l.Body)) {
					l = cand
				}
			}
			if l == nil {
				return
			}
			// the element written to changes with the iteration: its address is an IndexAddr whose index
			// is computed inside the loop
			varies := false
			v := fa.X
			for d := 0; d < 12 && v != nil; d++ {
				switch x := v.(type) {
				case *ssa.IndexAddr:
					if ii, ok := x.Index.(ssa.Instruction); ok && l.Body[ii.Block()] {
						varies = true
					}
					v = x.X
				case *ssa.FieldAddr:
					v = x.X
				case *ssa.UnOp:
					v = x.X
				default:
					v = nil
				}
			}
			if !varies {
				return
			}
			// the stored value is an allocation made before the loop
			made := false
			switch x := st.Val.(type) {
			case *ssa.Slice:
				if al, ok := x.X.(*ssa.Alloc); ok && !l.Body[al.Block()] && !l.Body[x.Block()] {
					made = true
				}
			case *ssa.MakeSlice:
				made = !l.Body[x.Block()]
			case *ssa.MakeMap:
				made = !l.Body[x.Block()]
			case *ssa.Alloc:
				made = x.Heap && !l.Body[x.Block()]
			}
			if !made {
				return
			}
			idx++
			n++
			fv, _ := fieldOfAddr(fa)
			r.Check("loop-fresh", fmt.Sprintf("%s:shared-store#%d:%s", shortName(fn), idx, fv.Name()), st.Pos(), false,
				fmt.Sprintf("%s stores into field %s of a different table element on every iteration a value that was allocated once, before the loop: the elements share that backing store, so writing one of them later changes the others", shortName(fn), fv.Name()))
		})
	}
	r.Min("struct_insertions_in_table_loops", n, 5)
}

// ---------------------------------------------------------------------------
// R-PREFIX-APPEND (C18, C09): `n := x[:k]` shares x's backing array.  Appending new elements to n
// overwrites x[k], x[k+1], … in place; if x's tail is read afterwards (to keep "the rows after the
// template row") it has already been clobbered.  A prefix of a live slice may only be appended to
// with that slice's own tail (the remove/insert idioms, which memmove handles) or after a full
// slice expression x[:k:k] / a copy.
// ---------------------------------------------------------------------------

func rulePrefixAppend(r *Run) {
	p := r.P
	n := 0
	for _, fn := range p.ModFuncs() {
		if fn.Pkg == nil || fn.Pkg.Pkg.Path() != pkgDoc {
			continue
		}
		// stores per path
		storeBlocks := map[string]map[*ssa.BasicBlock]bool{}
		allInstrs(fn, func(in ssa.Instruction) {
			if st, ok := in.(*ssa.Store); ok {
				ps := pathString(st.Addr)
				if storeBlocks[ps] == nil {
					storeBlocks[ps] = map[*ssa.BasicBlock]bool{}
				}
				storeBlocks[ps][st.Block()] = true
			}
		})
		idx := 0
		allInstrs(fn, func(in ssa.Instruction) {
			ap, ok := in.(*ssa.Call)
			if !ok {
				return
			}
			if b, ok := ap.Call.Value.(*ssa.Builtin); !ok || b.Name() != "append" || len(ap.Call.Args) < 2 {
				return
			}
			// chase the accumulator to its origin
			var origin *ssa.Slice
			seen := map[ssa.Value]bool{}
			var chase func(v ssa.Value)
			chase = func(v ssa.Value) {
				if v == nil || seen[v] || origin != nil {
					return
				}
				seen[v] = true
				switch x := v.(type) {
				case *ssa.Phi:
					for _, e := range x.Edges {
						chase(e)
					}
				case *ssa.Call:
					if b, ok := x.Call.Value.(*ssa.Builtin); ok && b.Name() == "append" {
						chase(x.Call.Args[0])
					}
				case *ssa.Slice:
					if x.Low == nil && x.High != nil && x.Max == nil {
						if _, isSlice := x.X.Type().Underlying().(*types.Slice); isSlice {
							origin = x
						}
					}
				}
			}
			chase(ap.Call.Args[0])
			if origin == nil {
				return
			}
			ld, ok := origin.X.(*ssa.UnOp)
			if !ok || ld.Op != token.MUL {
				return
			}
			if _, isLocal := ld.X.(*ssa.Alloc); isLocal {
				return
			}
			path := pathString(ld.X)
			// appended with the same slice's own tail: remove/insert idiom
			if s1, ok := ap.Call.Args[1].(*ssa.Slice); ok {
				if l1, ok := s1.X.(*ssa.UnOp); ok && pathString(l1.X) == path {
					return
				}
			}
			n++
			idx++
			// is the tail of the same slice read later, before the path is overwritten?
			cut := map[*ssa.BasicBlock]bool{}
			for b := range storeBlocks[path] {
				if b != ap.Block() {
					cut[b] = true
				}
			}
			after := reachableBlocks(ap.Block(), cut)
			// the usual case `x = append(x[:i], …)`: the path is overwritten right after the append in
			// the same block, so everything later (including the next loop iteration) sees the new slice
			storeAfter := -1
			for i, in2 := range ap.Block().Instrs {
				if st, ok := in2.(*ssa.Store); ok && i > instrIndex(ap) && pathString(st.Addr) == path {
					storeAfter = i
					break
				}
			}
			stale := ""
			allInstrs(fn, func(in2 ssa.Instruction) {
				s2, ok := in2.(*ssa.Slice)
				if !ok || s2 == origin || s2.Low == nil {
					return
				}
				l2, ok := s2.X.(*ssa.UnOp)
				if !ok || pathString(l2.X) != path {
					return
				}
				if storeAfter >= 0 {
					if s2.Block() != ap.Block() || instrIndex(s2) < instrIndex(ap) || instrIndex(s2) > storeAfter {
						return
					}
				}
				if !after[s2.Block()] {
					// a block that overwrites the path, reached from the append: reads before that store count
					entered := false
					for _, pr := range s2.Block().Preds {
						if after[pr] {
							entered = true
						}
					}
					if !entered || !cut[s2.Block()] {
						return
					}
					for i, in3 := range s2.Block().Instrs {
						if st, ok := in3.(*ssa.Store); ok && pathString(st.Addr) == path {
							if i < instrIndex(s2) {
								return
							}
							break
						}
					}
				}
				if s2.Block() == ap.Block() && instrIndex(s2) < instrIndex(ap) {
					// evaluated before the append in straight-line code (unless the block is in a loop)
					if !reachableBlocks(firstSucc(ap.Block()), nil)[ap.Block()] {
						return
					}
				}
				stale = p.pos(s2.Pos())
			})
			// …or the tail was sliced off BEFORE the append and is used after it (following := x[i+1:];
			// x = append(x[:i], new...); x = append(x, following...)): the slice value still points into
			// the array the append has just written over
			if stale == "" {
				allInstrs(fn, func(in2 ssa.Instruction) {
					s2, ok := in2.(*ssa.Slice)
					if !ok || s2 == origin || s2.Low == nil || s2.Referrers() == nil {
						return
					}
					l2, ok := s2.X.(*ssa.UnOp)
					if !ok || pathString(l2.X) != path {
						return
					}
					before := s2.Block() == ap.Block() && instrIndex(s2) < instrIndex(ap) || s2.Block() != ap.Block() && s2.Block().Dominates(ap.Block())
					if !before {
						return
					}
					for _, u := range *s2.Referrers() {
						if u == ssa.Instruction(ap) {
							continue
						}
						later := u.Block() == ap.Block() && instrIndex(u) > instrIndex(ap) || u.Block() != ap.Block() && reachableBlocks(ap.Block(), nil)[u.Block()] && !u.Block().Dominates(ap.Block())
						if later {
							stale = p.pos(s2.Pos()) + ", used again at " + p.pos(u.Pos())
						}
					}
				})
			}
			r.Check("prefix-append", fmt.Sprintf("%s#%d", shortName(topLevel(fn)), idx), ap.Pos(), stale == "",
				fmt.Sprintf("%s appends new elements to a prefix x[:k] of %s%s", shortName(fn), path, map[bool]string{true: "; the rest of that slice is not read afterwards", false: " and reads the tail of the same slice afterwards (" + stale + "): the appended elements have already overwritten it in place"}[stale == ""]))
		})
	}
	r.Count("prefix_append_sites", n)
}

func firstSucc(b *ssa.BasicBlock) *ssa.BasicBlock {
	if len(b.Succs) == 0 {
		return b
	}
	return b.Succs[0]
}

// ---------------------------------------------------------------------------
// R-COUNTER-NUMERIC (C04, C10): the image counter restored on Open must exceed the NUMBER of every
// existing media part.  Part names order lexicographically ("image9" > "image10"), so a restored
// value that depends on an ordered comparison of names — rather than of the parsed numbers — is
// too small as soon as a package holds ten images, and the next image overwrites image10.
// ---------------------------------------------------------------------------

func ruleCounterNumeric(r *Run) {
	p := r.P
	root := r.mustFunc(pkgDoc, "openFromZipReader")
	if root == nil {
		return
	}
	sl := newSlicer(p)
	n := 0
	for _, fn := range sortedFuncs(p.staticReach(root)) {
		allInstrs(fn, func(in ssa.Instruction) {
			st, ok := in.(*ssa.Store)
			if !ok {
				return
			}
			fv, _ := fieldOfAddr(st.Addr)
			if !fieldIs(p, fv, pkgDoc, "Document", "nextImageID") {
				return
			}
			if _, isConst := st.Val.(*ssa.Const); isConst {
				return
			}
			n++
			res := sl.SliceWithControl(st.Val, st)
			bad := ""
			intCmp := false
			for v := range res.Vals {
				bo, ok := v.(*ssa.BinOp)
				if !ok {
					continue
				}
				switch bo.Op {
				case token.LSS, token.LEQ, token.GTR, token.GEQ:
					if isStringType(bo.X.Type()) {
						bad = p.pos(bo.Pos())
					} else {
						intCmp = true
					}
				}
			}
			okc := bad == "" && intCmp
			why := "the maximum is taken over parsed numbers"
			if bad != "" {
				why = "it depends on an ordered comparison of part NAMES (" + bad + "): image9 sorts after image10, so with ten or more images the counter restarts below an existing number and a new image overwrites an existing media part"
			} else if !intCmp {
				why = "no numeric maximum over the existing media parts was found in its computation"
			}
			r.Check("counter-numeric", shortName(fn)+":nextImageID", st.Pos(), okc, "the restored image counter: "+why)
			// the restore must count EVERY media name the namer can produce: the namer takes the
			// extension from the format or, for unknown formats, from the caller's file name, so a
			// restore that looks at the extension at all skips names the library itself wrote
			ext := ""
			for v := range res.Vals {
				if c, ok := v.(*ssa.Call); ok {
					if cal := staticCallee(c); cal != nil && cal.Pkg != nil {
						switch cal.Pkg.Pkg.Path() + "." + cal.Name() {
						case "path/filepath.Ext", "path.Ext", "mime.TypeByExtension":
							// used to SELECT (compared with constants, looked up in a table), not merely
							// cut off before the number is parsed
							if comparedWithConst(c, 0) {
								ext = cal.Pkg.Pkg.Path() + "." + cal.Name() + " at " + p.pos(c.Pos())
							}
						case "strings.HasSuffix":
							if _, isC := c.Call.Args[1].(*ssa.Const); isC {
								ext = "strings.HasSuffix at " + p.pos(c.Pos())
							}
						}
					}
				}
			}
			// the restore must RECOGNISE every name shape the namer writes: when the number is taken out
			// of the name by a scan format, every format the namer builds names with has to fit it
			for v := range res.Vals {
				c, ok := v.(*ssa.Call)
				if !ok || calleeName(c) != "fmt.Sscanf" || len(c.Call.Args) < 2 {
					continue
				}
				scanF, ok := constString(c.Call.Args[1])
				if !ok || !strings.Contains(scanF, "%d") {
					continue
				}
				for _, nf := range mediaNameFormats(p, sl) {
					okF, why := nameFitsScan(nf.call, nf.format, scanF)
					r.Check("counter-numeric", shortName(fn)+":nextImageID:name-shape:"+nf.format, nf.call.Pos(), okF,
						fmt.Sprintf("media names are built with %q in %s and their number is read back on Open with Sscanf(%q): %s", nf.format, shortName(nf.call.Parent()), scanF,
							map[bool]string{true: "the shape is recognised", false: why + " — names of this shape are not counted, the counter restarts below a number already used and the next picture overwrites an existing media part"}[okF]))
				}
			}
			r.Check("counter-numeric", shortName(fn)+":nextImageID:all-extensions", st.Pos(), ext == "",
				"the restored image counter must not depend on the media part's extension ("+ext+"): generateSafeImageFileName writes .png, .jpeg, .gif and caller-supplied extensions, and a part that is skipped here is overwritten by the next image added after Open")
		})
	}
	r.Min("image_counter_restores", n, 1)
}

type nameFormat struct {
	call   *ssa.Call
	format string
}

// mediaNameFormats: the Sprintf formats with a %d that build the name of a word/media/ part — in
// the storing function itself or in the string-valued module helpers its key is computed by.
func mediaNameFormats(p *Program, sl *slicer) []nameFormat {
	var out []nameFormat
	seenFn := map[*ssa.Function]bool{}
	var scan func(fn *ssa.Function, depth int)
	scan = func(fn *ssa.Function, depth int) {
		if fn == nil || seenFn[fn] || depth > 3 || !p.inModule(fn) {
			return
		}
		seenFn[fn] = true
		allInstrs(fn, func(in ssa.Instruction) {
			c, ok := in.(*ssa.Call)
			if !ok {
				return
			}
			if calleeName(c) == "fmt.Sprintf" && len(c.Call.Args) == 2 {
				if f, ok := constString(c.Call.Args[0]); ok && strings.Contains(f, "%d") && depth > 0 {
					out = append(out, nameFormat{c, f})
				}
			}
		})
	}
	for _, ps := range collectPartStores(p) {
		ks := ps.Key.norm()
		if len(ks) == 0 || ks[0].Sym != nil || !strings.HasPrefix(ks[0].Const, "word/media/") {
			continue
		}
		for v := range sl.Slice(ps.MU.Key).Vals {
			c, ok := v.(*ssa.Call)
			if !ok {
				continue
			}
			if calleeName(c) == "fmt.Sprintf" && len(c.Call.Args) == 2 && c.Parent() == ps.Fn {
				if f, ok := constString(c.Call.Args[0]); ok && strings.Contains(f, "%d") && !strings.HasPrefix(f, "rId") {
					out = append(out, nameFormat{c, f})
				}
				continue
			}
			cal := staticCallee(c)
			if cal == nil || !p.inModule(cal) || cal.Signature.Results().Len() != 1 || !isStringType(cal.Signature.Results().At(0).Type()) {
				continue
			}
			// a namer: a string-valued helper that is handed a number — not the relationship-id
			// allocator (it is handed the list it scans), whose result is an id, not a part name
			hasInt, takesRels := false, false
			for _, par := range cal.Params {
				if b, ok := par.Type().Underlying().(*types.Basic); ok && b.Info()&types.IsInteger != 0 {
					hasInt = true
				}
				if sl, ok := par.Type().Underlying().(*types.Slice); ok && typeIs(sl.Elem(), pkgDoc, "Relationship") {
					takesRels = true
				}
			}
			if hasInt && !takesRels {
				scan(cal, 1)
			}
		}
	}
	sort.Slice(out, func(i, j int) bool { return out[i].call.Pos() < out[j].call.Pos() })
	return out
}

// nameFitsScan: a name built with Sprintf(format, …) is accepted by Sscanf(name, scanF, &n): the
// literal text in front of the number agrees, and the literal the scan demands right after the
// number is what the name has there — literally, or as the start of the string argument printed
// there (an extension: constants beginning with that literal, filepath.Ext).
func nameFitsScan(call *ssa.Call, format, scanF string) (bool, string) {
	si := strings.Index(scanF, "%d")
	fi := strings.Index(format, "%d")
	if si < 0 || fi < 0 {
		return true, ""
	}
	sPre, sPost := scanF[:si], scanF[si+2:]
	if j := strings.Index(sPost, "%"); j >= 0 {
		sPost = sPost[:j]
	}
	fPre, fRest := format[:fi], format[fi+2:]
	if !strings.HasSuffix(fPre, sPre) {
		return false, fmt.Sprintf("the text in front of the number is %q, the scan expects %q", fPre, sPre)
	}
	if sPost == "" || strings.HasPrefix(fRest, sPost) {
		return true, ""
	}
	if strings.HasPrefix(fRest, "%s") || strings.HasPrefix(fRest, "%v") {
		// which argument is printed there?
		argNo := strings.Count(format[:fi+2], "%") - 2*strings.Count(format[:fi+2], "%%")
		args := varargElems(call.Call.Args[1])
		if argNo >= 0 && argNo < len(args) {
			a := args[argNo]
			if mi, ok := a.(*ssa.MakeInterface); ok {
				a = mi.X
			}
			if startsWithLiteral(a, sPost, map[ssa.Value]bool{}) {
				return true, ""
			}
		}
		return false, fmt.Sprintf("after the number the scan expects %q, the name continues with a value that is not known to begin with it", sPost)
	}
	return false, fmt.Sprintf("after the number the scan expects %q, the name continues with %q", sPost, fRest)
}

// startsWithLiteral: every value v can take is a string beginning with lit (or, for ".", the
// result of filepath.Ext / path.Ext, whose non-empty results begin with a dot).
func startsWithLiteral(v ssa.Value, lit string, seen map[ssa.Value]bool) bool {
	if seen[v] {
		return true
	}
	seen[v] = true
	switch x := v.(type) {
	case *ssa.Const:
		s, ok := constString(x)
		return ok && strings.HasPrefix(s, lit)
	case *ssa.Phi:
		for _, e := range x.Edges {
			if !startsWithLiteral(e, lit, seen) {
				return false
			}
		}
		return len(x.Edges) > 0
	case *ssa.ChangeType:
		return startsWithLiteral(x.X, lit, seen)
	case *ssa.BinOp:
		if x.Op == token.ADD {
			return startsWithLiteral(x.X, lit, seen)
		}
	case *ssa.UnOp:
		if al, ok := x.X.(*ssa.Alloc); ok && x.Op == token.MUL && al.Referrers() != nil {
			n := 0
			for _, u := range *al.Referrers() {
				if st, ok := u.(*ssa.Store); ok && st.Addr == ssa.Value(al) {
					n++
					if !startsWithLiteral(st.Val, lit, seen) {
						return false
					}
				}
			}
			return n > 0
		}
	case *ssa.Call:
		switch calleeName(x) {
		case "path/filepath.Ext", "path.Ext":
			return lit == "."
		case "strings.ToLower", "strings.ToUpper":
			return startsWithLiteral(x.Call.Args[0], lit, seen)
		}
		if cal := staticCallee(x); cal != nil && len(cal.Blocks) > 0 && cal.Signature.Results().Len() == 1 {
			rets := returnsOf(cal)
			for _, ret := range rets {
				if len(ret.Results) != 1 || !startsWithLiteral(ret.Results[0], lit, seen) {
					return false
				}
			}
			return len(rets) > 0
		}
	}
	return false
}

// ---------------------------------------------------------------------------
// R-SOFTBREAK (C19): in the inline renderer every Text node — including the empty one goldmark
// emits for a soft break that follows an inline span — reaches the soft-break test; an early
// `continue` before it glues the words on both sides of the line break together.
// ---------------------------------------------------------------------------

func ruleSoftBreak(r *Run) {
	p := r.P
	anchor := r.mustFunc(pkgMd, "(*WordRenderer).renderInlineContent")
	if anchor == nil {
		return
	}
	// the loop over the inline children with its *ast.Text case may have been moved into a helper
	// shared with the task-item renderer: take the anchor, or else the function it reaches that has
	// the Text case and produces runs (the text extractor has such a case too, but adds no runs)
	hasTextCase := func(f *ssa.Function) bool {
		has := false
		allInstrs(f, func(in ssa.Instruction) {
			if ta, ok := in.(*ssa.TypeAssert); ok && ta.CommaOk && typeIs(ta.AssertedType, gmAst, "Text") {
				has = true
			}
		})
		return has
	}
	addsRuns := func(f *ssa.Function) bool {
		adds := false
		fs := []*ssa.Function{f}
		for g := range p.staticReach(f) {
			fs = append(fs, g)
		}
		for _, g := range fs {
			allInstrs(g, func(in ssa.Instruction) {
				if c, ok := in.(ssa.CallInstruction); ok && strings.HasSuffix(calleeName(c), ".AddFormattedText") {
					adds = true
				}
			})
		}
		return adds
	}
	fn := anchor
	if !hasTextCase(fn) {
		for _, g := range sortedFuncs(p.staticReach(anchor)) {
			if g.Pkg != nil && g.Pkg.Pkg.Path() == pkgMd && g.Parent() == nil && hasTextCase(g) && addsRuns(g) {
				fn = g
				break
			}
		}
	}
	found := false
	allInstrs(fn, func(in ssa.Instruction) {
		ta, ok := in.(*ssa.TypeAssert)
		if !ok || !ta.CommaOk || !typeIs(ta.AssertedType, gmAst, "Text") {
			return
		}
		var okIf *ssa.If
		if ta.Referrers() != nil {
			for _, u := range *ta.Referrers() {
				if ex, ok := u.(*ssa.Extract); ok && ex.Index == 1 && ex.Referrers() != nil {
					for _, u2 := range *ex.Referrers() {
						if x, ok := u2.(*ssa.If); ok {
							okIf = x
						}
					}
				}
			}
		}
		if okIf == nil {
			return
		}
		found = true
		entry := okIf.Block().Succs[0]
		// blocks that call SoftLineBreak on the node
		cut := map[*ssa.BasicBlock]bool{}
		allInstrs(fn, func(in2 ssa.Instruction) {
			if c, ok := in2.(ssa.CallInstruction); ok && strings.HasSuffix(calleeName(c), ".SoftLineBreak") {
				cut[c.Block()] = true
			} else if ok {
				// the Text case may be a helper shared with the task-item renderer (addTextNode(p, n, …)):
				// it counts when every path through the helper consults SoftLineBreak()
				if cal := staticCallee(c); cal != nil && p.inModule(cal) && alwaysCallsOnSuccess(p, cal, func(cn string) bool { return strings.HasSuffix(cn, ".SoftLineBreak") }, 0) {
					cut[c.Block()] = true
				}
			}
		})
		var loop *natLoop
		for _, l := range naturalLoops(fn) {
			if l.Body[okIf.Block()] && (loop == nil || len(l.Body) < len(loop.Body)) {
				loop = l
			}
		}
		okc := len(cut) > 0
		why := "no call of SoftLineBreak() in the function"
		if okc && loop == nil && !cut[entry] {
			// the Text case sits in a per-node helper (no loop of its own): every way out of the case —
			// to a return of the helper — must have consulted SoftLineBreak()
			for b := range reachableBlocks(entry, cut) {
				for _, in3 := range b.Instrs {
					if _, isRet := in3.(*ssa.Return); isRet {
						okc, why = false, "some path through the *ast.Text case returns before SoftLineBreak() is consulted"
					}
				}
			}
			if _, isRet := entry.Instrs[len(entry.Instrs)-1].(*ssa.Return); isRet && !cut[entry] {
				okc, why = false, "the *ast.Text case returns before SoftLineBreak() is consulted"
			}
		}
		if okc && loop != nil && !cut[entry] {
			// can the next iteration (or the function exit) be reached from the Text case without it?
			reach := reachableBlocks(entry, cut)
			escaped := false
			for b := range reach {
				for _, s := range b.Succs {
					if s == loop.Header || !loop.Body[s] {
						escaped = true
					}
				}
				// the step block `child = child.NextSibling()` leads to the header
			}
			if escaped {
				okc, why = false, "some path through the *ast.Text case leaves it before SoftLineBreak() is consulted"
			}
		}
		r.Check("softbreak", shortName(fn), ta.Pos(), okc,
			fmt.Sprintf("%s: every Text node must reach the soft-break test%s", shortName(fn), map[bool]string{true: "", false: " — " + why + ": the empty Text node that carries a soft break after **bold**, `code` or a link is skipped and the two lines are joined without a space"}[okc]))
	})
	if !found {
		r.Unresolved("(*WordRenderer).renderInlineContent: case *ast.Text")
	}
	_ = p
}

// ---------------------------------------------------------------------------
// R-ROUND-NEAREST (C12): every setter is read-all / change-one / write-all, so the mm→twips
// conversion is applied again and again to values that came from twips.  Rounding to nearest makes
// that idempotent; truncation (a bare float→int conversion) loses a twip whenever twips→mm→twips
// lands just below the integer, so a call that does not name a margin still changes it.
// ---------------------------------------------------------------------------

func ruleRoundNearest(r *Run) {
	p := r.P
	setFn := r.mustFunc(pkgDoc, "(*Document).SetPageSettings")
	if setFn == nil {
		return
	}
	sl := newSlicer(p)
	sl.dataOnly = true
	n := 0
	forEachInstr(helperGroup(p, setFn), func(in ssa.Instruction) {
		st, ok := in.(*ssa.Store)
		if !ok {
			return
		}
		fv, _ := fieldOfAddr(st.Addr)
		if fv == nil {
			return
		}
		o := fieldOwner(p, fv)
		if o == nil || (o.Obj().Name() != "PageSizeXML" && o.Obj().Name() != "PageMargin") {
			return
		}
		res := sl.Slice(st.Val)
		if !res.callsTo("mmToTwips") {
			return
		}
		n++
		bad := ""
		for v := range res.Vals {
			cv, ok := v.(*ssa.Convert)
			if !ok {
				continue
			}
			from, ok1 := cv.X.Type().Underlying().(*types.Basic)
			to, ok2 := cv.Type().Underlying().(*types.Basic)
			if !ok1 || !ok2 || from.Info()&types.IsFloat == 0 || to.Info()&types.IsInteger == 0 {
				continue
			}
			rounded := false
			switch x := cv.X.(type) {
			case *ssa.Call:
				cn := calleeName(x)
				if cn == "math.Round" || cn == "math.RoundToEven" {
					rounded = true
				}
				if cn == "math.Floor" {
					if len(x.Call.Args) == 1 {
						if bo, ok := x.Call.Args[0].(*ssa.BinOp); ok && bo.Op == token.ADD {
							rounded = true
						}
					}
				}
			case *ssa.BinOp:
				if x.Op == token.ADD {
					if c, ok := x.Y.(*ssa.Const); ok && c.Value != nil && c.Value.String() == "0.5" {
						rounded = true
					}
				}
			}
			if !rounded {
				bad = p.pos(cv.Pos())
			}
		}
		r.Check("round-nearest", o.Obj().Name()+"."+fv.Name(), st.Pos(), bad == "",
			fmt.Sprintf("%s.%s is written from millimetres%s", o.Obj().Name(), fv.Name(), map[bool]string{true: " with rounding to the nearest twip (or formatted with %.0f)", false: " through a truncating float→int conversion (" + bad + "): reading the settings and writing them back is no longer the identity, so setters that do not name this attribute decrement it"}[bad == ""]))
	})
	r.Min("mm_to_twips_stores", n, 9)
}

// ---------------------------------------------------------------------------
// R-TOC-CONFIG-FLOW (C15): a call that is given a TOC configuration must collect headings up to
// THAT configuration's level.  Functions that collect with a level not derived from their own
// parameters (UpdateTOC: DefaultTOCConfig) are fine by themselves, but a function that takes a
// *TOCConfig must not reach them: the requested level would be dropped on that path.
// ---------------------------------------------------------------------------

func ruleTOCConfigFlow(r *Run) {
	p := r.P
	collect := r.mustFunc(pkgDoc, "(*Document).collectHeadings")
	if collect == nil {
		return
	}
	isCfg := func(t types.Type) bool { return typeIs(t, pkgDoc, "TOCConfig") }
	// functions that collect with a level that does not come from a parameter of theirs
	defaultCollectors := map[*ssa.Function]token.Pos{}
	nCalls := 0
	for _, fn := range p.ModFuncs() {
		if fn.Pkg == nil || fn.Pkg.Pkg.Path() != pkgDoc {
			continue
		}
		allInstrs(fn, func(in ssa.Instruction) {
			c, ok := in.(ssa.CallInstruction)
			if !ok || staticCallee(c) != collect {
				return
			}
			nCalls++
			args := c.Common().Args
			lvl := args[len(args)-1]
			fromParam := false
			for rt := range deepRoots(p, lvl) {
				if par, ok := rt.(*ssa.Parameter); ok && par.Parent() == topLevel(fn) && par != topLevel(fn).Params[0] {
					fromParam = true
				}
			}
			if !fromParam {
				defaultCollectors[topLevel(fn)] = c.Pos()
				// an update has no configuration of its own: its level is the default, or something read
				// out of the table of contents being updated — not a configuration remembered in the
				// Document, which belongs to whichever GenerateTOC call ran last, not to this table
				sl := newSlicer(p)
				sl.dataOnly = true
				var remembered []string
				for f := range sl.Slice(lvl).fieldsReadOf(p, map[string]bool{"Document": true}) {
					if f != "Document.Body" {
						remembered = append(remembered, f)
					}
				}
				// the level read out of a configuration object that a module helper built
				// (config := d.tocUpdateConfig(); config.MaxLevel): what the helper stores into that field
				if ld, ok := lvl.(*ssa.UnOp); ok && ld.Op == token.MUL {
					if fa, ok := ld.X.(*ssa.FieldAddr); ok {
						lfv, base := fieldOfAddr(fa)
						if bc, ok := stripLoads(base).(*ssa.Call); ok && lfv != nil {
							if g := staticCallee(bc); g != nil && p.inModule(g) {
								allInstrs(g, func(in2 ssa.Instruction) {
									st2, ok := in2.(*ssa.Store)
									if !ok {
										return
									}
									if f2, _ := fieldOfAddr(st2.Addr); f2 != lfv {
										return
									}
									for f := range sl.Slice(st2.Val).fieldsReadOf(p, map[string]bool{"Document": true}) {
										if f != "Document.Body" {
											remembered = append(remembered, f)
										}
									}
								})
							}
						}
					}
				}
				sort.Strings(remembered)
				r.Check("toc-config-flow", shortName(topLevel(fn))+":level-source", c.Pos(), len(remembered) == 0,
					fmt.Sprintf("%s collects headings with a level that is not an argument: %s", shortName(topLevel(fn)),
						map[bool]string{true: "it does not come from state remembered in the Document", false: "it is read from " + strings.Join(remembered, ", ") + " — a document-wide remembered configuration is that of the LAST GenerateTOC call, so a table generated with another depth is rebuilt with the wrong level"}[len(remembered) == 0]))
			}
		})
	}
	r.Min("heading_collection_calls", nCalls, 2)
	n := 0
	for _, fn := range p.exportedAPI(pkgDoc) {
		hasCfg := false
		for _, par := range fn.Params {
			if isCfg(par.Type()) {
				hasCfg = true
			}
		}
		if !hasCfg {
			continue
		}
		n++
		bad := ""
		if pos, ok := defaultCollectors[fn]; ok {
			bad = fmt.Sprintf("it collects headings itself with a level that is not taken from its arguments (%s)", p.pos(pos))
		}
		for g := range p.staticReach(fn) {
			if g == fn {
				continue
			}
			if pos, ok := defaultCollectors[g]; ok {
				bad = fmt.Sprintf("it can call %s, which collects headings with its own default level (%s)", shortName(g), p.pos(pos))
			}
		}
		r.Check("toc-config-flow", shortName(fn), fn.Pos(), bad == "",
			fmt.Sprintf("%s takes a TOC configuration%s", shortName(fn), map[bool]string{true: "; every heading collection it performs uses a level derived from its arguments", false: " but " + bad + ": the table of contents then lists headings up to a level the caller did not ask for"}[bad == ""]))
	}
	r.Min("api_functions_taking_toc_config", n, 2)
	// the requested level is a value of the call: a configuration POINTER kept in the document (or
	// anywhere outside the call) stays under the caller's control, and a later update would list
	// headings up to whatever the caller has written into it since
	for _, fn := range p.ModFuncs() {
		if fn.Pkg == nil || fn.Pkg.Pkg.Path() != pkgDoc {
			continue
		}
		allInstrs(fn, func(in ssa.Instruction) {
			var val, addr ssa.Value
			switch x := in.(type) {
			case *ssa.Store:
				val, addr = x.Val, x.Addr
			case *ssa.MapUpdate:
				val, addr = x.Value, x.Map
			default:
				return
			}
			if !isCfg(val.Type()) {
				return
			}
			if _, isPtr := val.Type().(*types.Pointer); !isPtr {
				return
			}
			if al := allocBase(addr); al != nil && !al.Heap {
				return
			}
			var par *ssa.Parameter
			seen := map[ssa.Value]bool{}
			var walk func(v ssa.Value)
			walk = func(v ssa.Value) {
				if seen[v] {
					return
				}
				seen[v] = true
				switch x := v.(type) {
				case *ssa.Parameter:
					par = x
				case *ssa.Phi:
					for _, e := range x.Edges {
						walk(e)
					}
				}
			}
			walk(val)
			if par == nil {
				return
			}
			r.Check("toc-config-flow", shortName(fn)+":retains-config", in.Pos(), false,
				fmt.Sprintf("%s stores its caller's *TOCConfig (parameter %s) in memory that outlives the call (%s) instead of a copy: the level a later update uses can be changed from outside the document", shortName(fn), par.Name(), pathString(addr)))
		})
	}
}

// ---------------------------------------------------------------------------
// R-NESTED-UNTAINTED (C16): when a loop body is expanded for one item, the inner {{#each}} blocks
// must be expanded BEFORE the item's own scalar fields are substituted.  If the text handed to the
// recursive expansion already contains substituted values, an inner placeholder with the same name
// as an outer field has been replaced by the outer value (and values can smuggle directives into
// the nested pass).  Decided as a data-flow fact: the string argument of the recursive call does
// not depend on any value-to-string conversion.
// ---------------------------------------------------------------------------

func ruleNestedUntainted(r *Run) {
	p := r.P
	conv := valueToStringFuncs(p)
	sl := newSlicer(p)
	sl.dataOnly = true
	sl.maxDepth = 0
	n := 0
	for _, fn := range p.ModFuncs() {
		if fn.Pkg == nil || fn.Pkg.Pkg.Path() != pkgDoc || fn.Parent() != nil {
			continue
		}
		if fn.Signature.Recv() == nil || !typeIs(fn.Signature.Recv().Type(), pkgDoc, "TemplateEngine") {
			continue
		}
		idx := 0
		for _, g := range withClosures(fn) {
			allInstrs(g, func(in ssa.Instruction) {
				c, ok := in.(ssa.CallInstruction)
				if !ok {
					return
				}
				// a recursive call: to fn itself, or to a sibling method that leads back to fn (the per-item
				// work split off into a helper that re-enters the loop expansion)
				if cal := staticCallee(c); cal != fn {
					if cal == nil || cal.Signature.Recv() == nil || !typeIs(cal.Signature.Recv().Type(), pkgDoc, "TemplateEngine") || !p.staticReach(cal)[fn] {
						return
					}
					// only the edge that closes the cycle towards the loop expansion itself is the
					// "hand the text down" step; a call that merely can reach fn through other API is not
					if !p.staticReach(fn)[cal] {
						return
					}
				}
				// map arguments of the recursive call: the lists an inner block may range over are those of
				// THIS item — a map that is filled inside the item loop must also be created inside it,
				// otherwise entries of earlier items are still there when a later item lacks them
				for ai, a := range c.Common().Args {
					mk, isMk := a.(*ssa.MakeMap)
					if !isMk {
						continue
					}
					// …and they are the lists of this item ONLY: an entry copied over from the enclosing
					// scope's table (the parameter of the same type) makes an inner {{#each X}} of an item
					// that has no X range over an outer list called X ("missing means empty" is lost)
					if mk.Referrers() != nil {
						inherited := ""
						for _, u := range *mk.Referrers() {
							mu, ok := u.(*ssa.MapUpdate)
							if !ok || mu.Map != ssa.Value(mk) {
								continue
							}
							// the stored value IS an entry of the enclosing table: the value variable of a range
							// over the parameter, or a look-up in it
							val := stripConv(mu.Value)
							if ex, ok := val.(*ssa.Extract); ok {
								if nx, ok := ex.Tuple.(*ssa.Next); ok {
									if rg, ok := nx.Iter.(*ssa.Range); ok {
										if par, isPar := rg.X.(*ssa.Parameter); isPar && par.Parent() == fn && types.Identical(par.Type(), mk.Type()) {
											inherited = par.Name()
										}
									}
								}
								if lk, ok := ex.Tuple.(*ssa.Lookup); ok {
									if par, isPar := lk.X.(*ssa.Parameter); isPar && par.Parent() == fn && types.Identical(par.Type(), mk.Type()) {
										inherited = par.Name()
									}
								}
							}
							if lk, ok := val.(*ssa.Lookup); ok {
								if par, isPar := lk.X.(*ssa.Parameter); isPar && par.Parent() == fn && types.Identical(par.Type(), mk.Type()) {
									inherited = par.Name()
								}
							}
						}
						if inherited != "" {
							n++
							r.Check("nested-untainted", fmt.Sprintf("%s:arg%d:item-lists-only", shortName(fn), ai), c.Pos(), false,
								fmt.Sprintf("%s hands the nested expansion a table of lists that also receives the entries of the enclosing scope (%s): an inner {{#each X}} of an item without a field X is expanded over an outer list named X instead of zero times", shortName(fn), inherited))
						}
					}
					var loop *natLoop
					for _, cand := range naturalLoops(g) {
						if cand.Body[c.Block()] && (loop == nil || len(cand.Body) < len(loop.Body)) {
							loop = cand
						}
					}
					if loop == nil || loop.Body[mk.Block()] {
						continue
					}
					filledInLoop := false
					if mk.Referrers() != nil {
						for _, u := range *mk.Referrers() {
							if mu, ok := u.(*ssa.MapUpdate); ok && loop.Body[mu.Block()] {
								filledInLoop = true
							}
						}
					}
					if !filledInLoop {
						continue
					}
					n++
					r.Check("nested-untainted", fmt.Sprintf("%s:arg%d:per-item-map", shortName(fn), ai), c.Pos(), false,
						fmt.Sprintf("%s hands the nested expansion a map that is created once (at %s) and filled for every item of the loop without being emptied: an inner {{#each}} over a list the current item does not have is expanded over the list of an earlier item", shortName(fn), p.pos(mk.Pos())))
				}
				// string arguments of the recursive call
				for ai, a := range c.Common().Args {
					if !isStringType(a.Type()) {
						continue
					}
					idx++
					n++
					bad := ""
					for v := range sl.Slice(a).Vals {
						if call, ok := v.(*ssa.Call); ok && conv[staticCallee(call)] {
							bad = p.pos(call.Pos())
						}
						// …nor may it have been through a pass that interprets directives against the
						// CURRENT item (a method handed the item's field map): an inner block's {{#if}} is
						// about the inner item
						if call, ok := v.(*ssa.Call); ok {
							if cal := staticCallee(call); cal != nil && cal != fn && p.inModule(cal) && isStringType(call.Type()) {
								for _, ca := range call.Call.Args {
									if mt, ok := ca.Type().Underlying().(*types.Map); ok {
										if kb, ok := mt.Key().Underlying().(*types.Basic); ok && kb.Info()&types.IsString != 0 {
											if _, isIface := mt.Elem().Underlying().(*types.Interface); isIface && call.Parent() == g {
												bad = p.pos(call.Pos()) + " (" + shortName(cal) + " applied to the enclosing item first)"
											}
										}
									}
								}
							}
						}
					}
					r.Check("nested-untainted", fmt.Sprintf("%s:arg%d#%d", shortName(fn), ai, idx), c.Pos(), bad == "",
						fmt.Sprintf("%s expands nested blocks recursively; the text it passes down %s", shortName(fn), map[bool]string{true: "contains no substituted value yet", false: "already contains values substituted at " + bad + ": an inner placeholder that shares its name with a field of the enclosing item has been replaced by the enclosing item's value before the inner loop sees it"}[bad == ""]))
				}
			})
		}
	}
	r.Min("recursive_template_expansions", n, 1)
}

// ---------------------------------------------------------------------------
// R-POOL-ESCAPE (C07, C20): an object taken from a package-level sync.Pool is shared by every caller
// in the process.  Nothing derived from it (the byte slice of a pooled bytes.Buffer, the object
// itself) may be returned to the caller: the next Get reuses the memory and the earlier result
// silently changes.
// ---------------------------------------------------------------------------

func rulePoolEscape(pkgs ...string) func(r *Run) {
	return func(r *Run) {
		p := r.P
		nPools := 0
		for _, pp := range pkgs {
			sp := p.SSAPkg[pp]
			if sp == nil {
				continue
			}
			var names []string
			for n, m := range sp.Members {
				if g, ok := m.(*ssa.Global); ok && containsType(derefType(g.Type()), "sync", "Pool") {
					names = append(names, n)
				}
			}
			sort.Strings(names)
			for _, n := range names {
				g := sp.Members[n].(*ssa.Global)
				nPools++
				bad := ""
				for _, fn := range p.ModFuncs() {
					allInstrs(fn, func(in ssa.Instruction) {
						c, ok := in.(*ssa.Call)
						if !ok || calleeName(c) != "(*sync.Pool).Get" || len(c.Call.Args) == 0 {
							return
						}
						if rootsOf(c.Call.Args[0])[g] == false && c.Call.Args[0] != ssa.Value(g) {
							return
						}
						// forward closure of the pooled object, through type assertions, method calls on it
						derived := map[ssa.Value]bool{c: true}
						for changed := true; changed; {
							changed = false
							allInstrs(fn, func(in2 ssa.Instruction) {
								// results spilled to a local because of a defer: `*t0 = v … return *t0`
								if st, ok := in2.(*ssa.Store); ok && derived[st.Val] {
									// …or kept in a field of a local object that is then used (writer.output = buf)
									if al := allocBase(st.Addr); al != nil && !derived[al] {
										derived[al] = true
										changed = true
									}
									return
								}
								v, ok := in2.(ssa.Value)
								if !ok || derived[v] {
									return
								}
								for _, op := range in2.Operands(nil) {
									if *op != nil && derived[*op] {
										if call, isCall := in2.(*ssa.Call); isCall {
											// only results that can alias the receiver's memory
											ptr := isPointerLike(call.Type())
											if tu, ok := call.Type().(*types.Tuple); ok {
												for i := 0; i < tu.Len(); i++ {
													if isPointerLike(tu.At(i).Type()) {
														ptr = true
													}
												}
											}
											if !ptr {
												return
											}
										}
										derived[v] = true
										changed = true
										return
									}
								}
							})
						}
						for _, ret := range returnsOf(fn) {
							for _, rv := range ret.Results {
								if derived[rv] && isPointerLike(rv.Type()) {
									bad = fmt.Sprintf("%s returns a %s that aliases an object taken from the pool (%s)", shortName(fn), rv.Type(), p.pos(ret.Pos()))
								}
							}
						}
					})
				}
				r.Check("pool-escape", strings.TrimPrefix(pp, modPath+"/pkg/")+"."+n, g.Pos(), bad == "",
					fmt.Sprintf("package-level pool %s: %s", n, map[bool]string{true: "nothing taken from it is handed to callers", false: bad + ": a result obtained earlier (by this or another document) is overwritten by the next call"}[bad == ""]))
			}
		}
		r.Count("package_level_pools", nPools)
		if nPools == 0 {
			r.Trivial("pool-escape", "none", token.NoPos, true, "no package-level sync.Pool in the analysed packages")
		}
	}
}

func containsType(t types.Type, pkg, name string) bool {
	seen := map[types.Type]bool{}
	var walk func(t types.Type) bool
	walk = func(t types.Type) bool {
		if t == nil || seen[t] {
			return false
		}
		seen[t] = true
		if typeIs(t, pkg, name) {
			return true
		}
		switch x := t.Underlying().(type) {
		case *types.Struct:
			for i := 0; i < x.NumFields(); i++ {
				if walk(x.Field(i).Type()) {
					return true
				}
			}
		case *types.Pointer:
			return walk(x.Elem())
		case *types.Array:
			return walk(x.Elem())
		}
		return false
	}
	return walk(t)
}

// ---------------------------------------------------------------------------
// R-MARSHAL-PURE (C03, C08): serialising must not change the model.  A custom MarshalXML (and
// everything it calls) may not store through its receiver — including the implicit store of
// `append(recv.f[:0], …)`, the "filter in place" idiom, which shifts the elements of the live
// list while the document is being saved.
// ---------------------------------------------------------------------------

func ruleMarshalPure(r *Run) {
	p := r.P
	ms := newMutSummary(p, false)
	ms.computeAll()
	n := 0
	for _, fn := range p.ModFuncs() {
		if fn.Name() != "MarshalXML" || fn.Signature.Recv() == nil || fn.Pkg == nil || len(fn.Params) == 0 {
			continue
		}
		n++
		bad := ""
		for _, s := range ms.Params(fn)[0] {
			bad = fmt.Sprintf("store at %s (in %s)", p.pos(s.Instr.Pos()), shortName(s.Fn))
			break
		}
		// appends that reuse the receiver's backing array
		for _, g := range sortedFuncs(p.staticReach(fn)) {
			allInstrs(g, func(in ssa.Instruction) {
				c, ok := in.(*ssa.Call)
				if !ok {
					return
				}
				if b, ok := c.Call.Value.(*ssa.Builtin); !ok || b.Name() != "append" {
					return
				}
				// accumulator origin: a reslice of memory rooted at the receiver
				seen := map[ssa.Value]bool{}
				var chase func(v ssa.Value) *ssa.Slice
				chase = func(v ssa.Value) *ssa.Slice {
					if v == nil || seen[v] {
						return nil
					}
					seen[v] = true
					switch x := v.(type) {
					case *ssa.Phi:
						for _, e := range x.Edges {
							if s := chase(e); s != nil {
								return s
							}
						}
					case *ssa.Call:
						if b, ok := x.Call.Value.(*ssa.Builtin); ok && b.Name() == "append" {
							return chase(x.Call.Args[0])
						}
					case *ssa.Slice:
						if x.Max == nil {
							return x
						}
					}
					return nil
				}
				sl := chase(c.Call.Args[0])
				if sl == nil || g != fn {
					return
				}
				for rt := range rootsOf(sl.X) {
					if rt == ssa.Value(fn.Params[0]) {
						bad = fmt.Sprintf("append at %s writes into the backing array of a slice of the receiver (%s)", p.pos(c.Pos()), pathString(stripLoadsAddr(sl.X)))
					}
				}
			})
		}
		r.Check("marshal-pure", shortName(fn), fn.Pos(), bad == "",
			fmt.Sprintf("%s %s", shortName(fn), map[bool]string{true: "does not modify the value it serialises", false: "modifies the value it serialises: " + bad + " — after a save the in-memory document differs from what was saved (elements duplicated or lost on the next save)"}[bad == ""]))
	}
	r.Min("custom_marshalers", n, 5)
}

func stripLoadsAddr(v ssa.Value) ssa.Value {
	if ld, ok := v.(*ssa.UnOp); ok && ld.Op == token.MUL {
		return ld.X
	}
	return v
}

// ---------------------------------------------------------------------------
// helperGroup: an anchor function together with the unexported, non-recursive module functions it
// statically reaches that are used ONLY from within that group (private helpers extracted by a
// refactoring).  Rules that scan the body of an anchor scan the group instead, so that moving a
// block into a helper does not make its stores and calls invisible.
// ---------------------------------------------------------------------------

func helperGroup(p *Program, anchor *ssa.Function) []*ssa.Function {
	group := map[*ssa.Function]bool{anchor: true}
	callers := p.callersIndex()
	for changed := true; changed; {
		changed = false
		for _, g := range sortedFuncs(p.staticReach(anchor)) {
			if group[g] || g.Parent() != nil && !group[topLevel(g)] {
				continue
			}
			if g.Parent() != nil {
				group[g] = true
				changed = true
				continue
			}
			if g.Object() != nil && g.Object().Exported() {
				continue
			}
			// every caller is already in the group
			all := len(callers[g]) > 0
			for c := range callers[g] {
				if !group[topLevel(c)] {
					all = false
				}
			}
			if all {
				group[g] = true
				changed = true
			}
		}
	}
	return sortedFuncs(group)
}

func forEachInstr(fns []*ssa.Function, f func(ssa.Instruction)) {
	for _, fn := range fns {
		allInstrs(fn, f)
	}
}

func forEachInstrFn(fns []*ssa.Function, f func(*ssa.Function, ssa.Instruction)) {
	for _, fn := range fns {
		allInstrs(fn, func(in ssa.Instruction) { f(fn, in) })
	}
}

// callersIndex: static callers of every module function (cached).
func (p *Program) callersIndex() map[*ssa.Function]map[*ssa.Function]bool {
	if p.callers != nil {
		return p.callers
	}
	idx := map[*ssa.Function]map[*ssa.Function]bool{}
	for _, fn := range p.ModFuncs() {
		allInstrs(fn, func(in ssa.Instruction) {
			add := func(cal *ssa.Function) {
				if cal == nil || !p.inModule(cal) {
					return
				}
				if idx[cal] == nil {
					idx[cal] = map[*ssa.Function]bool{}
				}
				idx[cal][fn] = true
			}
			if c, ok := in.(ssa.CallInstruction); ok {
				add(staticCallee(c))
			}
			for _, op := range in.Operands(nil) {
				if f, ok := (*op).(*ssa.Function); ok {
					add(f)
				}
				if mc, ok := (*op).(*ssa.MakeClosure); ok {
					add(mc.Fn.(*ssa.Function))
				}
			}
		})
	}
	p.callers = idx
	return idx
}

// withCallerControl: a store found in a helper is also control dependent on the conditions under
// which the anchor calls that helper.
func withCallerControl(p *Program, sl *slicer, res *sliceRes, at ssa.Instruction, anchor *ssa.Function) *sliceRes {
	fn := topLevel(at.Parent())
	if fn == anchor {
		return res
	}
	for caller := range p.callersIndex()[fn] {
		allInstrs(caller, func(in ssa.Instruction) {
			if c, ok := in.(ssa.CallInstruction); ok && staticCallee(c) == fn {
				for _, cond := range controlConds(c) {
					sl.walk(cond, res, 0)
				}
				// the helper's parameters are the caller's arguments
				for _, a := range c.Common().Args {
					sl.walk(a, res, 0)
				}
			}
		})
	}
	return res
}

// ---------------------------------------------------------------------------
// R-COUNTER-MONOTONIC (C15, C10): the counters that hand out note, numbering and image ids must
// never move backwards: an id that is still in use would be handed out again and the new entry
// overwrites the live one in the registry map.  Outside constructors, clone functions and the
// restore on Open, the only store to such a counter is `counter = counter + constant`.
// ---------------------------------------------------------------------------

var idCounters = map[string][]string{
	"FootnoteManager":  {"nextFootnoteID", "nextEndnoteID"},
	"NumberingManager": {"nextAbstractNumID", "nextNumID"},
	"Document":         {"nextImageID"},
}

func ruleCounterMonotonic(owners ...string) func(r *Run) {
	return func(r *Run) {
		p := r.P
		clones := map[*ssa.Function]bool{}
		for _, c := range discoverClones(p, pkgDoc) {
			clones[c.Fn] = true
		}
		n := 0
		for _, fn := range p.ModFuncs() {
			if fn.Pkg == nil || fn.Pkg.Pkg.Path() != pkgDoc {
				continue
			}
			idx := 0
			allInstrs(fn, func(in ssa.Instruction) {
				st, ok := in.(*ssa.Store)
				if !ok {
					return
				}
				fv, base := fieldOfAddr(st.Addr)
				if fv == nil {
					return
				}
				o := fieldOwner(p, fv)
				if o == nil {
					return
				}
				isCounter := false
				for _, ow := range owners {
					if o.Obj().Name() != ow {
						continue
					}
					for _, c := range idCounters[ow] {
						if c == fv.Name() {
							isCounter = true
						}
					}
				}
				if !isCounter {
					return
				}
				// initialisation of an object created here (constructor, clone, lazily created manager)
				if _, fresh := stripLoads(base).(*ssa.Alloc); fresh {
					return
				}
				top := topLevel(fn)
				if clones[top] || isDocConstructor(top) {
					return
				}
				// …or of an object that every caller has just created: an unexported initialisation
				// helper of a constructor / clone function (inheritRegistries(dst, src))
				if par, ok := stripLoads(base).(*ssa.Parameter); ok && top == fn && !fn.Object().Exported() {
					if pi := paramIndex(fn, par); pi >= 0 && onlyFreshArgs(p, fn, pi) {
						return
					}
				}
				// the restore of the image counter on Open is decided by counter-numeric / fresh-dep
				if fv.Name() == "nextImageID" {
					if open := p.Func(pkgDoc, "openFromZipReader"); open != nil {
						for _, g := range helperGroup(p, open) {
							if g == top {
								return
							}
						}
					}
				}
				n++
				idx++
				inc := false
				if bo, ok := st.Val.(*ssa.BinOp); ok && bo.Op == token.ADD {
					if c, isC := constInt(bo.Y); isC && c > 0 {
						if ld, ok := bo.X.(*ssa.UnOp); ok && ld.Op == token.MUL && pathString(ld.X) == pathString(st.Addr) {
							inc = true
						}
					}
				}
				r.Check("counter-monotonic", fmt.Sprintf("%s:%s.%s#%d", shortName(top), o.Obj().Name(), fv.Name(), idx), st.Pos(), inc,
					fmt.Sprintf("%s assigns the id counter %s.%s %s", shortName(top), o.Obj().Name(), fv.Name(), map[bool]string{true: "its own value plus a positive constant", false: "a value that is not counter+constant (" + symOfExpr(st.Val) + "): the counter can move backwards, an id still in use is handed out again and the new entry replaces the live one"}[inc]))
			})
		}
		r.Min("id_counter_updates", n, 1)
	}
}

// onlyFreshArgs: every static call of fn passes, as argument pi, an object created in the calling
// function (an allocation or the result of a Document constructor); fn has at least one caller and
// is never used as a value.
func onlyFreshArgs(p *Program, fn *ssa.Function, pi int) bool {
	callers := p.callersIndex()[fn]
	if len(callers) == 0 {
		return false
	}
	ok := true
	sites := 0
	for caller := range callers {
		allInstrs(caller, func(in ssa.Instruction) {
			for _, op := range in.Operands(nil) {
				if *op == ssa.Value(fn) {
					if c, isCall := in.(ssa.CallInstruction); !isCall || c.Common().Value != ssa.Value(fn) {
						ok = false // used as a function value
					}
				}
			}
			c, isCall := in.(ssa.CallInstruction)
			if !isCall || staticCallee(c) != fn || pi >= len(c.Common().Args) {
				return
			}
			sites++
			switch a := stripLoads(c.Common().Args[pi]).(type) {
			case *ssa.Alloc:
			case *ssa.Call:
				if cal := staticCallee(a); cal == nil || !isDocConstructor(cal) {
					ok = false
				}
			default:
				ok = false
			}
		})
	}
	return ok && sites > 0
}

func symOfExpr(v ssa.Value) string {
	if in, ok := v.(ssa.Instruction); ok {
		return in.String()
	}
	return v.String()
}

// ---------------------------------------------------------------------------
// R-CODE-VERBATIM (C19): the lines of a code block are taken from the source as they are.  The
// function that extracts them must not pass the text through anything that removes leading
// whitespace (TrimSpace, TrimLeft, Trim, Fields): indentation is content in a code block.
// ---------------------------------------------------------------------------

func ruleCodeVerbatim(r *Run) {
	p := r.P
	fn := r.mustFunc(pkgMd, "(*WordRenderer).renderCodeBlock")
	if fn == nil {
		return
	}
	// the text of every paragraph the code-block renderer (and its private helpers) adds: its data
	// dependence slice — through the line-extraction helper, if there is one — must not contain a
	// whitespace-removing call.  A Trim used only to DECIDE (blank line → " ") is not in the slice.
	sl := newSlicer(p)
	sl.dataOnly = true
	n := 0
	bad := ""
	forEachInstr(helperGroup(p, fn), func(in ssa.Instruction) {
		c, ok := in.(*ssa.Call)
		if !ok {
			return
		}
		cal := staticCallee(c)
		if cal == nil || cal.Name() != "AddParagraph" || len(c.Call.Args) < 2 {
			return
		}
		if _, isConst := c.Call.Args[1].(*ssa.Const); isConst {
			return
		}
		n++
		for v := range sl.Slice(c.Call.Args[1]).Vals {
			tc, ok := v.(*ssa.Call)
			if !ok {
				continue
			}
			switch calleeName(tc) {
			case "strings.TrimSpace", "strings.TrimLeft", "strings.Trim", "strings.TrimLeftFunc", "strings.TrimFunc", "strings.Fields", "bytes.TrimSpace", "bytes.TrimLeft", "bytes.Trim", "strings.TrimPrefix":
				bad = calleeName(tc) + " at " + p.pos(tc.Pos())
			}
		}
	})
	r.Min("code_line_paragraphs", n, 1)
	r.Check("code-verbatim", shortName(fn), fn.Pos(), bad == "",
		fmt.Sprintf("%s %s", shortName(fn), map[bool]string{true: "takes the code lines from the source without removing leading whitespace", false: "passes the code text through " + bad + ": the indentation of the first line (and blank lines at the edges) of a code block is lost"}[bad == ""]))
}

// ---------------------------------------------------------------------------
// R-TOKEN-AGREEMENT (C16): the loop opener is recognised in two places of the nested-loop
// expansion: where the block header is matched and where nested openers are counted to find the
// matching {{/each}}.  Both must use the same recogniser (the compiled pattern).  A second,
// hand-written recogniser (strings.Index with "{{#each ") disagrees with the pattern on
// `{{#each<TAB>x}}` and on literal text such as "{{#each item in list}}".
// ---------------------------------------------------------------------------

func ruleTokenAgreement(r *Run) {
	p := r.P
	n := 0
	for _, fn := range p.ModFuncs() {
		if fn.Pkg == nil || fn.Pkg.Pkg.Path() != pkgDoc || fn.Parent() != nil {
			continue
		}
		// functions that match a compiled pattern containing a block opener
		usesPattern := map[string]bool{}
		for _, g := range withClosures(fn) {
			allInstrs(g, func(in ssa.Instruction) {
				c, ok := in.(*ssa.Call)
				if !ok || calleeName(c) != "regexp.MustCompile" || len(c.Call.Args) == 0 {
					return
				}
				if pat, ok := constString(c.Call.Args[0]); ok {
					for _, d := range []string{"#each", "#if", "#block"} {
						if strings.Contains(pat, d) {
							usesPattern[d] = true
						}
					}
				}
			})
		}
		if len(usesPattern) == 0 {
			continue
		}
		n++
		bad := ""
		for _, g := range withClosures(fn) {
			allInstrs(g, func(in ssa.Instruction) {
				c, ok := in.(*ssa.Call)
				if !ok {
					return
				}
				switch calleeName(c) {
				case "strings.Index", "strings.Contains", "strings.HasPrefix", "strings.LastIndex", "strings.Count", "strings.Split", "strings.SplitN", "strings.Cut":
				default:
					return
				}
				for _, a := range c.Call.Args[1:] {
					if s, ok := constString(a); ok {
						for d := range usesPattern {
							if strings.Contains(s, "{{"+d) {
								bad = fmt.Sprintf("%s(…, %q) at %s", calleeName(c), s, p.pos(c.Pos()))
							}
						}
					}
				}
			})
		}
		r.Check("token-agreement", shortName(fn), fn.Pos(), bad == "",
			fmt.Sprintf("%s recognises block openers with a compiled pattern%s", shortName(fn), map[bool]string{true: " only", false: " and, separately, with " + bad + ": the two recognisers accept different spellings, so nesting is miscounted for openers only one of them accepts"}[bad == ""]))
	}
	r.Min("functions_matching_block_openers", n, 3)
}

// madeOutside: v is a freshly allocated object (composite literal / new) whose allocation lies
// outside loop l — one object for all iterations.
func madeOutside(v ssa.Value, l *natLoop) bool {
	switch x := v.(type) {
	case *ssa.Alloc:
		return x.Heap && !l.Body[x.Block()]
	case *ssa.Phi:
		for _, e := range x.Edges {
			if madeOutside(e, l) {
				return true
			}
		}
	}
	return false
}

// ---------------------------------------------------------------------------
// R-SIZE-PRECEDENCE (C10): the sizing rules are ordered: explicit width AND height first (the
// aspect-ratio flag is then irrelevant), otherwise one dimension with the other derived, otherwise
// the pixel size.  In the extent computation the flag KeepAspectRatio must therefore not be
// consulted before the explicit-size test: no read of it may dominate the test "Height > 0" that
// follows "Width > 0".
// ---------------------------------------------------------------------------

func ruleSizePrecedence(r *Run) {
	p := r.P
	fn := sizingFunc(p)
	if fn == nil {
		r.Unresolved("sizing function (reads ImageSize.Width/Height, returns two integers)")
		return
	}
	cmpField := func(v ssa.Value) string {
		// a predicate on the field (hasWidth := usableSizeMM(size.Width)) is a test of that field too
		if c, ok := v.(*ssa.Call); ok {
			if cal := staticCallee(c); cal != nil && p.inModule(cal) && cal.Signature.Results().Len() == 1 {
				if b, ok := cal.Signature.Results().At(0).Type().Underlying().(*types.Basic); ok && b.Kind() == types.Bool {
					for _, a := range c.Call.Args {
						var fv *types.Var
						switch x := a.(type) {
						case *ssa.UnOp:
							fv, _ = fieldOfAddr(x.X)
						case *ssa.Field:
							fv, _ = fieldOfVal(x)
						}
						if fv != nil && (fieldIs(p, fv, pkgDoc, "ImageSize", "Width") || fieldIs(p, fv, pkgDoc, "ImageSize", "Height")) {
							return fv.Name()
						}
					}
				}
			}
			return ""
		}
		bo, ok := v.(*ssa.BinOp)
		if !ok || bo.Op != token.GTR {
			return ""
		}
		var fv *types.Var
		switch x := bo.X.(type) {
		case *ssa.UnOp:
			fv, _ = fieldOfAddr(x.X)
		case *ssa.Field:
			fv, _ = fieldOfVal(x)
		}
		if fv != nil && (fieldIs(p, fv, pkgDoc, "ImageSize", "Width") || fieldIs(p, fv, pkgDoc, "ImageSize", "Height")) {
			return fv.Name()
		}
		return ""
	}
	// explicit test: a block testing Height>0 inside the true region of a block testing Width>0 (or vice versa)
	var explicit []*ssa.BasicBlock
	for _, b := range fn.Blocks {
		if len(b.Instrs) == 0 {
			continue
		}
		iff, ok := b.Instrs[len(b.Instrs)-1].(*ssa.If)
		if !ok {
			continue
		}
		// value form of `a && b` (used for tag-less switch cases): phi [blockOf(a): false, …: b]
		if ph, ok := iff.Cond.(*ssa.Phi); ok && len(ph.Edges) == 2 {
			fa, fb := "", ""
			for i, e := range ph.Edges {
				if c, ok := e.(*ssa.Const); ok && c.Value != nil && c.Value.String() == "false" {
					pb := b.Preds[i]
					if len(pb.Instrs) > 0 {
						if pif, ok := pb.Instrs[len(pb.Instrs)-1].(*ssa.If); ok {
							fa = cmpField(pif.Cond)
						}
					}
				} else {
					fb = cmpField(e)
				}
			}
			if fa != "" && fb != "" && fa != fb {
				explicit = append(explicit, b)
			}
			continue
		}
		f1 := cmpField(iff.Cond)
		if f1 == "" {
			continue
		}
		t := b.Succs[0]
		if len(t.Instrs) == 0 {
			continue
		}
		if iff2, ok := t.Instrs[len(t.Instrs)-1].(*ssa.If); ok && len(t.Preds) == 1 {
			if f2 := cmpField(iff2.Cond); f2 != "" && f2 != f1 {
				explicit = append(explicit, t)
			}
		}
	}
	var flagLoads []ssa.Instruction
	allInstrs(fn, func(in ssa.Instruction) {
		var fv *types.Var
		switch x := in.(type) {
		case *ssa.FieldAddr:
			fv, _ = fieldOfAddr(x)
		case *ssa.Field:
			fv, _ = fieldOfVal(x)
		}
		if fieldIs(p, fv, pkgDoc, "ImageSize", "KeepAspectRatio") {
			flagLoads = append(flagLoads, in)
		}
	})
	if len(explicit) == 0 {
		r.Check("size-precedence", shortName(fn), fn.Pos(), false,
			"no test of the form `Width > 0 && Height > 0` (explicit size) was found at the head of the sizing decision: the explicit-size rule must come first")
		return
	}
	bad := ""
	for _, l := range flagLoads {
		for _, e := range explicit {
			if l.Block() != e && l.Block().Dominates(e) {
				bad = p.pos(l.Pos())
			}
		}
	}
	// … and inside the explicit branch the flag has no say: both dimensions were given.  A read
	// counts when its value reaches a branch condition or a returned value (not, say, a log call).
	decides := func(in ssa.Instruction) bool {
		v, ok := in.(ssa.Value)
		if !ok {
			return false
		}
		seen := map[ssa.Value]bool{}
		var walk func(v ssa.Value) bool
		walk = func(v ssa.Value) bool {
			if seen[v] || v.Referrers() == nil {
				return false
			}
			seen[v] = true
			for _, u := range *v.Referrers() {
				switch x := u.(type) {
				case *ssa.If, *ssa.Return:
					return true
				case *ssa.UnOp, *ssa.BinOp, *ssa.Phi, *ssa.Convert, *ssa.ChangeType:
					if walk(x.(ssa.Value)) {
						return true
					}
				}
			}
			return false
		}
		return walk(v)
	}
	inside := ""
	for _, l := range flagLoads {
		for _, e := range explicit {
			t := e.Succs[0]
			if len(t.Preds) == 1 && t.Dominates(l.Block()) && decides(l) {
				inside = p.pos(l.Pos())
			}
		}
	}
	r.Check("size-precedence", shortName(fn)+":explicit-branch", fn.Pos(), inside == "",
		fmt.Sprintf("%s: %s", shortName(fn), map[bool]string{true: "the branch taken when both width and height are given never looks at the aspect-ratio flag", false: "KeepAspectRatio is read (" + inside + ") inside the branch taken when BOTH width and height are given: the extent then departs from the explicit millimetres the sizing rules promise"}[inside == ""]))
	r.Check("size-precedence", shortName(fn), fn.Pos(), bad == "",
		fmt.Sprintf("%s: %s", shortName(fn), map[bool]string{true: "the explicit width-and-height rule is decided before the aspect-ratio flag is looked at", false: "KeepAspectRatio is consulted (" + bad + ") before the explicit width-and-height test: with both dimensions given and the flag set, one of the requested dimensions is ignored and re-derived from the pixel ratio"}[bad == ""]))
	r.Count("aspect_flag_reads", len(flagLoads))
}

// ---------------------------------------------------------------------------
// R-XML-OBJECT-TOTAL (C12): SetPageSettings describes the WHOLE page set-up.  Each section XML
// object it writes (pgSz, pgMar, docGrid) must therefore either be a freshly built value, or have
// every one of its attributes assigned together.  Updating an existing object in place and
// assigning some attribute only under a condition ("only when > 0", "only for landscape") leaves
// the previous value behind: a later call cannot reset it, and what is read back is not what was
// set last.
// ---------------------------------------------------------------------------

func ruleXMLObjectTotal(r *Run) {
	p := r.P
	setFn := r.mustFunc(pkgDoc, "(*Document).SetPageSettings")
	if setFn == nil {
		return
	}
	owners := map[string]bool{"PageSizeXML": true, "PageMargin": true, "DocGrid": true}
	type site struct {
		st    *ssa.Store
		fv    *types.Var
		fresh bool
	}
	byOwner := map[string][]site{}
	forEachInstr(helperGroup(p, setFn), func(in ssa.Instruction) {
		st, ok := in.(*ssa.Store)
		if !ok {
			return
		}
		fv, base := fieldOfAddr(st.Addr)
		if fv == nil {
			return
		}
		o := fieldOwner(p, fv)
		if o == nil || !owners[o.Obj().Name()] {
			return
		}
		_, fresh := stripLoads(base).(*ssa.Alloc)
		if _, isAllocDirect := base.(*ssa.Alloc); isAllocDirect {
			fresh = true
		}
		// `sectPr.DocGrid = &DocGrid{…}` … `sectPr.DocGrid.CharSpace = …`: the pointer is re-loaded,
		// but a store of a fresh object to the same path dominates this store
		if ld, ok := base.(*ssa.UnOp); ok && !fresh {
			path := pathString(ld.X)
			allInstrs(st.Parent(), func(in2 ssa.Instruction) {
				st2, ok := in2.(*ssa.Store)
				if !ok || pathString(st2.Addr) != path {
					return
				}
				if _, isNew := st2.Val.(*ssa.Alloc); !isNew {
					return
				}
				if st2.Block() == st.Block() && instrIndex(st2) < instrIndex(st) || st2.Block() != st.Block() && st2.Block().Dominates(st.Block()) {
					fresh = true
				}
			})
		}
		byOwner[o.Obj().Name()] = append(byOwner[o.Obj().Name()], site{st, fv, fresh})
	})
	n := 0
	for _, on := range []string{"DocGrid", "PageMargin", "PageSizeXML"} {
		sites := byOwner[on]
		if len(sites) == 0 {
			continue
		}
		n++
		named := p.Named(pkgDoc, on)
		stt := named.Underlying().(*types.Struct)
		bad := ""
		for _, s := range sites {
			if s.fresh {
				// a field of a freshly built object assigned later under a condition is fine only if the
				// object itself was built on that very path: the zero value is the "unset" value
				continue
			}
			// in-place update of an object that may already exist: all attributes must be assigned in
			// the same block
			inBlock := map[*types.Var]bool{}
			for _, s2 := range sites {
				if s2.st.Block() == s.st.Block() && !s2.fresh {
					inBlock[s2.fv] = true
				}
			}
			for i := 0; i < stt.NumFields(); i++ {
				f := stt.Field(i)
				if f.Name() == "XMLName" {
					continue
				}
				if !inBlock[f] {
					bad = fmt.Sprintf("the %s object is updated in place (%s) and its attribute %s is not assigned together with the others", on, p.pos(s.st.Pos()), f.Name())
				}
			}
		}
		r.Check("xml-object-total", on, sites[0].st.Pos(), bad == "",
			fmt.Sprintf("section XML object %s: %s", on, map[bool]string{true: "built afresh (or every attribute assigned together) on each SetPageSettings", false: bad + ": a value written by an earlier call survives a later call that should have replaced it"}[bad == ""]))
	}
	r.Min("section_xml_objects_written", n, 3)
}

// ---------------------------------------------------------------------------
// R-ITEM-CONFIG-FLOW (C15): every item of a multi-level list carries its own type, symbol, level
// and start value.  In a loop over []ListItem the numbering for an item must be obtained from a
// configuration built from THAT item on every iteration: each path through the loop body passes a
// call that (transitively) reaches getOrCreateNumbering.  A per-call cache keyed by some of the
// fields lets later items inherit the definition of the first one.
// ---------------------------------------------------------------------------

func ruleItemConfigFlow(r *Run) {
	p := r.P
	target := r.mustFunc(pkgDoc, "(*Document).getOrCreateNumbering")
	if target == nil {
		return
	}
	reaches := func(cal *ssa.Function) bool {
		return cal == target || (cal != nil && p.inModule(cal) && p.staticReach(cal)[target])
	}
	n := 0
	for _, fn := range p.ModFuncs() {
		if fn.Pkg == nil || fn.Pkg.Pkg.Path() != pkgDoc || fn.Parent() != nil {
			continue
		}
		for li, l := range naturalLoops(fn) {
			ri := rangeOf(l)
			if ri == nil {
				continue
			}
			st, ok := ri.X.Type().Underlying().(*types.Slice)
			if !ok || !typeIs(st.Elem(), pkgDoc, "ListItem") {
				continue
			}
			n++
			cut := map[*ssa.BasicBlock]bool{}
			for b := range l.Body {
				for _, in := range b.Instrs {
					if c, ok := in.(ssa.CallInstruction); ok && reaches(staticCallee(c)) {
						cut[b] = true
					}
				}
			}
			iff := l.Header.Instrs[len(l.Header.Instrs)-1].(*ssa.If)
			body := iff.Block().Succs[0]
			if !l.Body[body] {
				body = iff.Block().Succs[1]
			}
			okc := len(cut) > 0 && (cut[body] || !reachableBlocks(body, cut)[l.Header])
			r.Check("item-config-flow", fmt.Sprintf("%s:loop#%d", shortName(fn), li), l.Header.Instrs[0].Pos(), okc,
				fmt.Sprintf("%s iterates list items; %s", shortName(fn), map[bool]string{true: "every iteration obtains the item's numbering from the item's own configuration", false: "some iteration can finish without asking for a numbering built from that item's configuration (e.g. a cache keyed by type and level only): an item with another bullet symbol or start value silently gets the earlier item's definition"}[okc]))
		}
	}
	r.Min("list_item_loops", n, 1)
}

// ---------------------------------------------------------------------------
// R-ITER-PROGRESS (C06): `for it.HasNext() { x, err := it.Next(); … }` terminates only if every
// turn advances the iterator.  When Next fails WITHOUT having changed the iterator (its stores to
// the receiver never precede a failure return), a loop that does not leave on that error spins
// for ever on the same position — an opened table with a short row is enough.
// ---------------------------------------------------------------------------

func ruleIterProgress(r *Run) {
	p := r.P
	ms := newMutSummary(p, false)
	n := 0
	for _, fn := range p.ModFuncs() {
		if fn.Pkg == nil || fn.Pkg.Pkg.Path() != pkgDoc {
			continue
		}
		for li, l := range naturalLoops(fn) {
			if len(l.Header.Instrs) == 0 {
				continue
			}
			iff, ok := l.Header.Instrs[len(l.Header.Instrs)-1].(*ssa.If)
			if !ok {
				continue
			}
			hc, ok := iff.Cond.(*ssa.Call)
			if !ok || len(hc.Call.Args) == 0 {
				continue
			}
			cond := staticCallee(hc)
			if cond == nil || !p.inModule(cond) || cond.Signature.Recv() == nil {
				continue
			}
			recv := hc.Call.Args[0]
			for b := range l.Body {
				for _, in := range b.Instrs {
					c, ok := in.(*ssa.Call)
					if !ok || len(c.Call.Args) == 0 || c.Call.Args[0] != recv {
						continue
					}
					adv := staticCallee(c)
					if adv == nil || adv == cond || !p.inModule(adv) || errorResultIndex(adv.Signature) < 0 {
						continue
					}
					// does a failed call leave the receiver unchanged?
					stuck := true
					fails := failureReturns(adv)
					for _, w := range receiverWrites(p, ms, adv, 0) {
						for _, ret := range fails {
							if w.Block() == ret.Block() && instrIndex(w) < instrIndex(ret) || w.Block() != ret.Block() && blockReaches(w.Block(), ret.Block()) {
								stuck = false
							}
						}
					}
					if !stuck || len(fails) == 0 {
						continue
					}
					n++
					// the non-nil branch of its error must leave the loop
					exits := false
					ev := errValueOf(c)
					if ev != nil {
						nilTests(fn, ev, func(tb, nilS, nonNilS *ssa.BasicBlock) {
							back := false
							for rb := range reachableBlocks(nonNilS, map[*ssa.BasicBlock]bool{nilS: true}) {
								if rb == l.Header {
									back = true
								}
							}
							if !back {
								exits = true
							}
						})
					}
					r.Check("iter-progress", fmt.Sprintf("%s:loop#%d", shortName(fn), li), c.Pos(), exits,
						fmt.Sprintf("%s loops while %s and advances with %s, which changes nothing when it fails; the loop %s", shortName(fn), shortName(cond), shortName(adv), map[bool]string{true: "is left when it fails", false: "continues after a failure, so it repeats the same failing call for ever (a row shorter than the first one of an opened table triggers it)"}[exits]))
				}
			}
		}
	}
	r.Min("iterator_loops", n, 1)
}

// ---------------------------------------------------------------------------
// R-ATTR-PRESENCE (C03): reader and writers must agree on whether an element without its
// attribute exists.  Where the reader keeps a child element T only when its attribute A is
// non-empty (`if val != "" { props.X = &T{A: val} }`), no code of the library may build a T whose
// A is left empty: such an element is written (<w:vMerge/>) and silently dropped on the next Open.
// Two sites that each look fine alone; decided from the regions of `attr != ""` tests in the reader
// and the composite literals everywhere else.
// ---------------------------------------------------------------------------

func ruleAttrPresence(r *Run) {
	p := r.P
	m := buildReaderModel(p)
	type req struct {
		T    *types.Named
		A    int // field index in T
		pos  token.Pos
		inFn *ssa.Function
	}
	var reqs []req
	seen := map[string]bool{}
	for _, f := range m.Funcs {
		for _, c := range strCompares(f) {
			if c.Const != "" {
				continue
			}
			bo := c.If.Cond.(*ssa.BinOp)
			neq := c.Block.Succs[1]
			if bo.Op == token.NEQ {
				neq = c.Block.Succs[0]
			}
			if len(neq.Preds) != 1 {
				continue
			}
			region := domSubtree(neq)
			for b := range region {
				for _, in := range b.Instrs {
					st, ok := in.(*ssa.Store)
					if !ok {
						continue
					}
					al, ok := st.Val.(*ssa.Alloc)
					if !ok || !region[al.Block()] {
						continue
					}
					fv, _ := fieldOfAddr(st.Addr)
					if fv == nil {
						continue
					}
					tn, tst := structOf(al.Type())
					if tn == nil || tst == nil || al.Referrers() == nil {
						continue
					}
					// which field of the new T receives the tested value?
					for _, u := range *al.Referrers() {
						fa, ok := u.(*ssa.FieldAddr)
						if !ok || fa.Referrers() == nil {
							continue
						}
						for _, u2 := range *fa.Referrers() {
							if s2, ok := u2.(*ssa.Store); ok && s2.Addr == ssa.Value(fa) && s2.Val == c.Operand {
								k := tn.Obj().Name() + "." + tst.Field(fa.Field).Name()
								if !seen[k] {
									seen[k] = true
									reqs = append(reqs, req{tn, fa.Field, st.Pos(), f})
								}
							}
						}
					}
				}
			}
		}
	}
	r.Min("reader_presence_conditions", len(reqs), 3)
	for _, q := range reqs {
		tst := q.T.Underlying().(*types.Struct)
		aname := tst.Field(q.A).Name()
		n := 0
		for _, fn := range p.ModFuncs() {
			if m.IsReader[topLevel(fn)] {
				continue
			}
			allInstrs(fn, func(in ssa.Instruction) {
				al, ok := in.(*ssa.Alloc)
				if !ok {
					return
				}
				tn, _ := structOf(al.Type())
				if tn != q.T {
					return
				}
				if _, isArr := derefType(al.Type()).Underlying().(*types.Array); isArr {
					return
				}
				// a literal (fields stored in the same function); locals that merely receive a copy are skipped
				stored, whole := "", false
				if al.Referrers() != nil {
					for _, u := range *al.Referrers() {
						switch x := u.(type) {
						case *ssa.FieldAddr:
							if x.Field != q.A || x.Referrers() == nil {
								continue
							}
							for _, u2 := range *x.Referrers() {
								if s2, ok := u2.(*ssa.Store); ok && s2.Addr == ssa.Value(x) {
									if cs, isC := constString(s2.Val); isC {
										if cs != "" {
											stored = "const"
										} else if stored == "" {
											stored = "empty"
										}
									} else {
										stored = "value"
									}
								}
							}
						case *ssa.Store:
							if x.Addr == ssa.Value(al) {
								whole = true // `*t = someStruct`: a copy, not a construction
							}
						}
					}
				}
				if whole {
					return
				}
				n++
				ok2 := stored == "const" || stored == "value"
				if ok2 {
					return
				}
				r.Check("attr-presence", fmt.Sprintf("%s.%s:%s", q.T.Obj().Name(), aname, shortName(topLevel(fn))), al.Pos(), false,
					fmt.Sprintf("%s builds a %s whose %s is empty; the reader (%s, %s) keeps a %s only when that attribute is non-empty, so the element is written on save and silently dropped on the next open", shortName(topLevel(fn)), q.T.Obj().Name(), aname, shortName(q.inFn), p.pos(q.pos), q.T.Obj().Name()))
			})
		}
		r.Check("attr-presence", q.T.Obj().Name()+"."+aname, q.pos, true, fmt.Sprintf("reader keeps %s only for a non-empty %s; %d construction site(s) outside the reader examined", q.T.Obj().Name(), aname, n))
	}
}

// ---------------------------------------------------------------------------
// R-READER-INPUT-ONLY (C03): whether the reader keeps what it has just read may depend on the
// element itself (its attributes, its text) — never on other state of the Document under
// construction (the style registry, the part map, counters): at parse time that state is whatever
// happens to have been loaded so far, so a value the library wrote itself can be dropped on Open
// ("keep w:pStyle only if the style manager already knows the style").  Decided on the branch
// conditions inside the element-case regions of the reader functions.
// ---------------------------------------------------------------------------

func ruleReaderInputOnly(r *Run) {
	p := r.P
	m := buildReaderModel(p)
	sl := newSlicer(p)
	sl.dataOnly = true
	// the parsed input itself (tokens of the decoder, which was built over the part being read) is a leaf
	sl.stop = func(v ssa.Value) bool {
		if c, ok := v.(*ssa.Call); ok && calleeName(c) == decoderToken {
			return true
		}
		return typeIs(v.Type(), xmlPkg, "Decoder")
	}
	docT := p.Named(pkgDoc, "Document")
	if docT == nil {
		r.Unresolved("document.Document")
		return
	}
	n := 0
	for _, f := range m.Funcs {
		inCase := map[*ssa.BasicBlock]bool{}
		for _, c := range m.ElemCmps[f] {
			for b := range c.Region {
				inCase[b] = true
			}
		}
		bad := ""
		var badPos token.Pos
		for _, b := range f.Blocks {
			if !inCase[b] || len(b.Instrs) == 0 {
				continue
			}
			iff, ok := b.Instrs[len(b.Instrs)-1].(*ssa.If)
			if !ok {
				continue
			}
			n++
			res := sl.Slice(iff.Cond)
			for v := range res.Vals {
				fa, ok := v.(*ssa.FieldAddr)
				if !ok {
					continue
				}
				pt, ok := fa.X.Type().Underlying().(*types.Pointer)
				if !ok || !types.Identical(pt.Elem(), docT) {
					continue
				}
				fld := docT.Underlying().(*types.Struct).Field(fa.Field).Name()
				if bad == "" {
					bad = fmt.Sprintf("a branch inside an element case of %s depends on Document.%s", shortName(f), fld)
					badPos = iff.Pos()
					if badPos == token.NoPos {
						badPos = b.Instrs[0].Pos()
					}
				}
			}
		}
		if bad != "" {
			r.Check("reader-input-only", shortName(f), badPos, false, bad+": what is kept from the file then depends on what else has been loaded so far, not on the element — content the library wrote itself can be dropped on open")
		} else {
			r.Check("reader-input-only", shortName(f), f.Pos(), true, "conditions inside element cases depend on the parsed input only")
		}
	}
	r.Min("reader_case_branches", n, 60)
}

// ---------------------------------------------------------------------------
// R-REL-SERIALISE-ALL (C04, C02): the relationship parts written on save contain EVERY relationship
// of the in-memory lists — no de-duplication, filtering or in-place replacement while serialising
// (a relationship dropped here leaves the body reference that uses its id dangling; "every
// relationship keeps its id, type, target").  Decided with the collects-all analysis on the slice
// that is marshalled into word/_rels/document.xml.rels and _rels/.rels.
// ---------------------------------------------------------------------------

// paramIndexOfKey: the index of the parameter of h that is the key of map update mu (0 if the key
// is not a plain parameter).
func paramIndexOfKey(h *ssa.Function, mu *ssa.MapUpdate) int {
	if par, ok := mu.Key.(*ssa.Parameter); ok {
		if pi := paramIndex(h, par); pi >= 0 {
			return pi
		}
	}
	return 0
}

func ruleRelSerialiseAll(r *Run) {
	p := r.P
	n := 0
	for _, ps := range partStoresCached(p) {
		k, isC := ps.Key.isConst()
		if !isC || (k != "word/_rels/document.xml.rels" && k != "_rels/.rels") {
			continue
		}
		fn := ps.Fn
		// the value handed to the marshaller
		res := newSlicer(p).Slice(ps.MU.Value)
		var marshalled []ssa.Value
		for v := range res.Vals {
			if c, ok := v.(*ssa.Call); ok {
				switch calleeName(c) {
				case "encoding/xml.Marshal", "encoding/xml.MarshalIndent":
					marshalled = append(marshalled, c.Call.Args[0])
				case "(*encoding/xml.Encoder).Encode":
					marshalled = append(marshalled, c.Call.Args[1])
				}
			}
		}
		for _, mv := range marshalled {
			if mi, ok := mv.(*ssa.MakeInterface); ok {
				mv = mi.X
			}
			// marshalled inside a keyed helper (storeXMLPart(name, v), possibly through a second helper
			// that does the marshalling): the value is a helper's parameter — follow it up to the
			// argument at the call site in the function the store stands for
			reach := p.staticReach(fn)
			for depth := 0; depth < 4; depth++ {
				par, ok := mv.(*ssa.Parameter)
				if !ok || par.Parent() == fn {
					break
				}
				h := par.Parent()
				pi := paramIndex(h, par)
				var next ssa.Value
				for _, g := range append([]*ssa.Function{fn}, sortedFuncs(reach)...) {
					if next != nil {
						break
					}
					allInstrs(g, func(in ssa.Instruction) {
						c, ok := in.(ssa.CallInstruction)
						if !ok || next != nil || staticCallee(c) != h || pi >= len(c.Common().Args) {
							return
						}
						// when the helper also takes the part name, it must be this part's
						if g == fn {
							for _, a := range c.Common().Args {
								if k2, isC2 := symOf(a).isConst(); isC2 && strings.Contains(k2, "/") && strings.HasSuffix(k2, "rels") && k2 != k {
									return
								}
							}
						}
						next = c.Common().Args[pi]
					})
				}
				if next == nil {
					break
				}
				if mi, ok := next.(*ssa.MakeInterface); ok {
					next = mi.X
				}
				mv = next
			}
			n++
			key := shortName(fn) + ":" + k
			// the registry object itself (d.relationships): nothing can be missing
			if ch, _ := addrChain(mv); len(ch) > 0 {
				r.Check("rel-serialise-all", key, ps.MU.Pos(), true, "the in-memory relationship list itself is marshalled")
				continue
			}
			al, ok := stripLoads(mv).(*ssa.Alloc)
			if !ok {
				r.Undecided("rel-serialise-all", key, ps.MU.Pos(), "the marshalled value is neither the registry nor a struct built here")
				continue
			}
			var listVals []ssa.Value
			allInstrs(fn, func(in ssa.Instruction) {
				st, ok := in.(*ssa.Store)
				if !ok {
					return
				}
				fv, base := fieldOfAddr(st.Addr)
				if fv == nil || stripLoads(base) != ssa.Value(al) {
					return
				}
				if sliceOfPtrTo(fv.Type(), pkgDoc, "Relationship") {
					listVals = append(listVals, st.Val)
				}
			})
			ok2, why := false, "no relationship list is stored into the marshalled struct"
			c := &collector{p: p}
			for _, lv := range listVals {
				if o, w := c.containsAll(lv); o {
					ok2, why = true, w
				} else {
					why = w
				}
			}
			r.Check("rel-serialise-all", key, ps.MU.Pos(), ok2,
				fmt.Sprintf("%s must write every relationship of the in-memory list into %s: %s", shortName(fn), k, map[bool]string{true: "complete (" + why + ")", false: "NOT shown complete — " + why + "; a relationship left out (merged with another one, filtered, overwritten in place) loses its id and every reference that uses it dangles in the saved package"}[ok2]))
		}
	}
	r.Min("relationship_parts_serialised", n, 2)
}

// ---------------------------------------------------------------------------
// R-MARSHAL-ATTR-UNIQUE (C06, C01, C03): a hand-written marshaller that adds attributes to the start
// element it passes to EncodeElement(v, start) must not add one that v's own struct tags already
// emit (xml:space on w:t): encoding/xml writes both, and an element with a duplicated attribute
// is not well-formed XML.  Constant attribute names appended to StartElement.Attr in the function vs
// the `,attr` tags of the encoded struct type.
// ---------------------------------------------------------------------------

func ruleMarshalAttrUnique(r *Run) {
	p := r.P
	n := 0
	for _, fn := range p.ModFuncs() {
		var calls []*ssa.Call
		allInstrs(fn, func(in ssa.Instruction) {
			if c, ok := in.(*ssa.Call); ok && calleeName(c) == "(*encoding/xml.Encoder).EncodeElement" {
				calls = append(calls, c)
			}
		})
		if len(calls) == 0 {
			continue
		}
		// constant names given to xml.Attr literals in this function, per StartElement variable they
		// are appended to
		attrsOf := map[ssa.Value]map[string]bool{}
		allInstrs(fn, func(in ssa.Instruction) {
			st, ok := in.(*ssa.Store)
			if !ok {
				return
			}
			s, isC := constString(st.Val)
			if !isC {
				return
			}
			ch, _ := addrChain(st.Addr)
			if len(ch) < 2 || ch[len(ch)-1] == nil || ch[len(ch)-1].Name() != "Local" {
				return
			}
			base := baseBefore(st.Addr, 2)
			if base == nil || !typeIs(derefType(base.Type()), xmlPkg, "Attr") {
				return
			}
			al := allocBase(base)
			if al == nil {
				return
			}
			for use := range forwardFlow(al, nil) {
				st2, ok := use.(*ssa.Store)
				if !ok {
					continue
				}
				if fa, ok := st2.Addr.(*ssa.FieldAddr); ok {
					if sa := allocBase(fa.X); sa != nil && typeIs(derefType(sa.Type()), xmlPkg, "StartElement") {
						if attrsOf[ssa.Value(sa)] == nil {
							attrsOf[ssa.Value(sa)] = map[string]bool{}
						}
						attrsOf[ssa.Value(sa)][s] = true
					}
				}
			}
		})
		for _, c := range calls {
			v := c.Call.Args[1]
			if mi, ok := v.(*ssa.MakeInterface); ok {
				v = mi.X
			}
			tn, tst := structOf(v.Type())
			if tn == nil || tst == nil || tn.Obj().Pkg() == nil || !strings.HasPrefix(tn.Obj().Pkg().Path(), modPath) {
				continue
			}
			n++
			dup := ""
			for i := 0; i < tst.NumFields(); i++ {
				t := parseXMLTag(tst.Tag(i))
				if !t.Attr {
					continue
				}
				var startAl ssa.Value
				if ld, ok := c.Call.Args[2].(*ssa.UnOp); ok && ld.Op == token.MUL {
					if sa := allocBase(ld.X); sa != nil {
						startAl = ssa.Value(sa)
					}
				}
				for an := range attrsOf[startAl] {
					if an == t.Name || an == t.Local {
						dup = an
					}
				}
			}
			r.Check("marshal-attr-unique", shortName(fn)+":"+tn.Obj().Name(), c.Pos(), dup == "",
				fmt.Sprintf("%s encodes a %s with a start element it builds itself; it adds attribute %q by hand although a field of %s is tagged to emit that attribute too: the element is written with the attribute twice and the part is not well-formed XML", shortName(fn), tn.Obj().Name(), dup, tn.Obj().Name()))
		}
	}
	r.Min("encode_element_calls_with_module_structs", n, 5)
}

// sizingFunc: the function that turns an ImageSize request into the displayed extent — found by
// role (reads ImageSize.Width and ImageSize.Height, returns two integers), not by name.
func sizingFunc(p *Program) *ssa.Function {
	var best *ssa.Function
	for _, fn := range p.ModFuncs() {
		if fn.Pkg == nil || fn.Pkg.Pkg.Path() != pkgDoc || fn.Parent() != nil {
			continue
		}
		res := fn.Signature.Results()
		if res.Len() != 2 {
			continue
		}
		ints := true
		for i := 0; i < 2; i++ {
			if b, ok := res.At(i).Type().Underlying().(*types.Basic); !ok || b.Info()&types.IsInteger == 0 {
				ints = false
			}
		}
		if !ints {
			continue
		}
		w, h := false, false
		allInstrs(fn, func(in ssa.Instruction) {
			if fa, ok := in.(*ssa.FieldAddr); ok {
				if fv, _ := fieldOfAddr(fa); fv != nil {
					if fieldIs(p, fv, pkgDoc, "ImageSize", "Width") {
						w = true
					}
					if fieldIs(p, fv, pkgDoc, "ImageSize", "Height") {
						h = true
					}
				}
			}
		})
		if w && h && (best == nil || fn.Pos() < best.Pos()) {
			best = fn
		}
	}
	return best
}

// ---------------------------------------------------------------------------
// R-SCALE-BEFORE-TRUNC (C10): the requested size in millimetres is a float; it is scaled to EMU
// (×36000) and only THEN converted to an integer.  A float→int conversion applied to the raw
// millimetre value (int64(mm) * 36000) silently drops the fraction: 12.7 mm becomes 12 mm.
// Decided on every float→integer conversion in the sizing function and the helpers it calls.
// ---------------------------------------------------------------------------

func ruleScaleBeforeTrunc(r *Run) {
	p := r.P
	fn := sizingFunc(p)
	if fn == nil {
		r.Unresolved("sizing function (reads ImageSize.Width/Height, returns two integers)")
		return
	}
	group := []*ssa.Function{fn}
	for g := range p.staticReach(fn) {
		if g != fn && g.Pkg != nil && g.Pkg.Pkg.Path() == pkgDoc {
			group = append(group, g)
		}
	}
	isRawSize := func(v ssa.Value) bool {
		var fv *types.Var
		switch x := v.(type) {
		case *ssa.UnOp:
			if x.Op == token.MUL {
				fv, _ = fieldOfAddr(x.X)
			}
		case *ssa.Field:
			fv, _ = fieldOfVal(x)
		}
		return fv != nil && (fieldIs(p, fv, pkgDoc, "ImageSize", "Width") || fieldIs(p, fv, pkgDoc, "ImageSize", "Height"))
	}
	n := 0
	for _, g := range sortedFuncs(funcSet(group)) {
		allInstrs(g, func(in ssa.Instruction) {
			cv, ok := in.(*ssa.Convert)
			if !ok {
				return
			}
			from, ok1 := cv.X.Type().Underlying().(*types.Basic)
			to, ok2 := cv.Type().Underlying().(*types.Basic)
			if !ok1 || !ok2 || from.Info()&types.IsFloat == 0 || to.Info()&types.IsInteger == 0 {
				return
			}
			raw := isRawSize(cv.X)
			if par, ok := cv.X.(*ssa.Parameter); ok && g != fn {
				pi := paramIndex(g, par)
				for _, caller := range group {
					allInstrs(caller, func(in2 ssa.Instruction) {
						if c, ok := in2.(ssa.CallInstruction); ok && staticCallee(c) == g && pi < len(c.Common().Args) && isRawSize(c.Common().Args[pi]) {
							raw = true
						}
					})
				}
			}
			n++
			r.Check("scale-before-trunc", fmt.Sprintf("%s#%d", shortName(g), n), cv.Pos(), !raw,
				fmt.Sprintf("%s converts the requested size in millimetres to an integer before scaling it to EMU: the fraction of a millimetre is dropped (12.7 mm is displayed as 12 mm); scale first (mm × 36000), convert afterwards", shortName(g)))
		})
	}
	r.Min("float_to_int_conversions_in_sizing", n, 2)
}

// ---------------------------------------------------------------------------
// R-REGISTRY-KEY-FRESH (C15, C13): the id under which a note or numbering instance is registered
// must be new for ANY history of additions and removals.  An id computed from the current size of
// the registry (len(m.footnotes)+1) repeats an id that is still in use as soon as an earlier entry
// has been removed; the new entry then replaces a live one.  The key of every insertion into a
// registry map must depend on an integer field of the registry object (a counter), not on len() of
// that map.  Dependence slice of the key, followed upwards through helper parameters.
// ---------------------------------------------------------------------------

func ruleRegistryKeyFresh(r *Run) {
	p := r.P
	clones := map[*ssa.Function]bool{}
	for _, c := range discoverClones(p, pkgDoc) {
		clones[c.Fn] = true
	}
	owners := map[string]bool{"FootnoteManager": true, "NumberingManager": true}
	sl := newSlicer(p)
	sl.dataOnly = true
	n := 0
	for _, fn := range p.ModFuncs() {
		if fn.Pkg == nil || fn.Pkg.Pkg.Path() != pkgDoc || clones[topLevel(fn)] {
			continue
		}
		allInstrs(fn, func(in ssa.Instruction) {
			mu, ok := in.(*ssa.MapUpdate)
			if !ok {
				return
			}
			ld, ok := mu.Map.(*ssa.UnOp)
			if !ok || ld.Op != token.MUL {
				return
			}
			fv, base := fieldOfAddr(ld.X)
			if fv == nil {
				return
			}
			o := fieldOwner(p, fv)
			if o == nil || !owners[o.Obj().Name()] {
				return
			}
			if _, fresh := stripLoads(base).(*ssa.Alloc); fresh {
				return // filling an object created here (clone / constructor)
			}
			// memo tables keyed by a configuration string are not id registries
			if !isStringType(mu.Key.Type()) {
				return
			}
			res := sl.SliceUp(mu.Key)
			usesLen, usesCounter, fromInt := false, false, false
			for v := range res.Vals {
				switch x := v.(type) {
				case *ssa.Call:
					if b, ok := x.Call.Value.(*ssa.Builtin); ok && b.Name() == "len" {
						if l2, ok := x.Call.Args[0].(*ssa.UnOp); ok && l2.Op == token.MUL {
							if f2, _ := fieldOfAddr(l2.X); f2 != nil {
								if o2 := fieldOwner(p, f2); o2 != nil && owners[o2.Obj().Name()] {
									usesLen = true
								}
							}
						}
					}
					switch calleeName(x) {
					case "strconv.Itoa", "strconv.FormatInt":
						fromInt = true
					}
				case *ssa.FieldAddr:
					if f2, _ := fieldOfAddr(x); f2 != nil {
						if o2 := fieldOwner(p, f2); o2 != nil && owners[o2.Obj().Name()] {
							if b, ok := f2.Type().Underlying().(*types.Basic); ok && b.Info()&types.IsInteger != 0 {
								usesCounter = true
							}
						}
					}
				}
			}
			_ = fromInt
			if !usesLen && !usesCounter {
				return // a key that is not a generated number (memo key built from the configuration)
			}
			n++
			ok2 := !usesLen
			r.Check("registry-key-fresh", fmt.Sprintf("%s:%s.%s", shortName(topLevel(fn)), o.Obj().Name(), fv.Name()), mu.Pos(), ok2,
				fmt.Sprintf("%s registers an entry in %s.%s under an id that %s; ids must come from a counter kept in the registry — an id derived from the number of entries present is handed out again after a removal and the new entry replaces one that is still referenced", shortName(topLevel(fn)), o.Obj().Name(), fv.Name(), map[bool]string{true: "comes from a counter field", false: fmt.Sprintf("does not (counter field read: %v, len() of the registry read: %v)", usesCounter, usesLen)}[ok2]))
		})
	}
	r.Min("registry_insertions_with_generated_ids", n, 3)
}

// ---------------------------------------------------------------------------
// R-HEADING-PER-ELEMENT (C15): "a table of contents lists exactly the headings up to the requested
// level".  Whether a heading becomes an entry may depend on that paragraph (its style level, its
// text) and on the requested level — not on what earlier iterations of the collecting loop have
// seen.  A filter fed by loop-carried state (a `seen` map keyed by the bookmark name) drops the
// second "Summary" heading.  In every loop over Body.Elements that appends TOCEntry values, the
// conditions on the way to the append must not read a map or slice that the same loop updates.
// ---------------------------------------------------------------------------

func ruleHeadingPerElement(r *Run) {
	p := r.P
	sl := newSlicer(p)
	sl.dataOnly = true
	n := 0
	for _, fn := range p.ModFuncs() {
		if fn.Pkg == nil || fn.Pkg.Pkg.Path() != pkgDoc {
			continue
		}
		for _, l := range naturalLoops(fn) {
			ri := rangeOf(l)
			if ri == nil || !isBodyElements(p, ri.X) {
				continue
			}
			var app *ssa.Call
			for b := range l.Body {
				for _, in := range b.Instrs {
					if c, ok := in.(*ssa.Call); ok {
						if bi, ok := c.Call.Value.(*ssa.Builtin); ok && bi.Name() == "append" {
							if st, ok := c.Type().Underlying().(*types.Slice); ok && typeIs(st.Elem(), pkgDoc, "TOCEntry") {
								app = c
							}
						}
					}
				}
			}
			if app == nil {
				continue
			}
			n++
			// containers updated inside the loop
			updated := map[ssa.Value]bool{}
			for b := range l.Body {
				for _, in := range b.Instrs {
					if mu, ok := in.(*ssa.MapUpdate); ok {
						updated[mu.Map] = true
					}
				}
			}
			bad := ""
			for b := range l.Body {
				if len(b.Instrs) == 0 || b == l.Header {
					continue
				}
				iff, ok := b.Instrs[len(b.Instrs)-1].(*ssa.If)
				if !ok || !b.Dominates(app.Block()) {
					continue
				}
				res := sl.Slice(iff.Cond)
				for v := range res.Vals {
					if lk, ok := v.(*ssa.Lookup); ok && updated[lk.X] {
						bad = "the branch at " + p.pos(iff.Cond.Pos()) + " consults a map that the loop itself fills"
					}
				}
			}
			r.Check("heading-per-element", shortName(fn), app.Pos(), bad == "",
				fmt.Sprintf("%s collects TOC entries in a loop over Body.Elements; whether a heading is listed must depend on that heading alone: %s", shortName(fn), map[bool]string{true: "no loop-carried filter", false: bad + " — a later heading with the same text (or the same generated bookmark name) is silently left out of the table of contents"}[bad == ""]))
		}
	}
	r.Min("heading_collecting_loops", n, 2)
}

// ---------------------------------------------------------------------------
// R-RUNS-KEPT (C18): rendering "leaves all other content … breaks … as they were".  A helper on the
// template path that maps a run list to a run list (coalescing, normalising) must keep every run:
// its result is built by a loop over the argument that appends the loop's element on every
// iteration.  Folding a run into its neighbour because the FORMATTING is equal throws away
// whatever else the run carries (a page break, a drawing, a field character).
// ---------------------------------------------------------------------------

func ruleRunsKept(r *Run) {
	p := r.P
	n := 0
	for _, fn := range p.ModFuncs() {
		if fn.Pkg == nil || fn.Pkg.Pkg.Path() != pkgDoc || fn.Parent() != nil || len(fn.Blocks) == 0 {
			continue
		}
		isRuns := func(t types.Type) bool { return sliceOfPtrTo(t, pkgDoc, "Run") }
		var par *ssa.Parameter
		for _, q := range fn.Params {
			if isRuns(q.Type()) {
				par = q
			}
		}
		res := fn.Signature.Results()
		if par == nil || res.Len() != 1 || !isRuns(res.At(0).Type()) {
			continue
		}
		n++
		c := &collector{p: p, paramComplete: true}
		okAll, why := true, ""
		for _, ret := range returnsOf(fn) {
			v := retResult(ret, 0)
			if v == ssa.Value(par) {
				continue
			}
			if o, w := c.containsAll(v); !o {
				okAll, why = false, w
			}
		}
		r.Check("runs-kept", shortName(fn), fn.Pos(), okAll,
			fmt.Sprintf("%s turns a list of runs into a list of runs; every run of the argument must be in the result: %s", shortName(fn), map[bool]string{true: "yes", false: "NOT shown — " + why + "; a run that is folded into its neighbour or skipped loses its break, drawing or field character"}[okAll]))
	}
	r.Count("run_list_transformers", n)
}

// ---------------------------------------------------------------------------
// R-SPLIT-AWARE (C18): a placeholder may be split across runs ("{" at the end of one run, "{name}}" in
// the next).  Deciding whether a paragraph / cell contains template syntax by looking at ONE run's
// text at a time ("does this run contain {{ ?") misses exactly those; the test must be made on the
// joined text.  On the document-template path, no test for directive syntax takes a single
// Run.Text.Content as its subject.
// ---------------------------------------------------------------------------

func ruleSplitAware(r *Run) {
	p := r.P
	var roots []*ssa.Function
	for _, name := range []string{"(*TemplateEngine).RenderTemplateToDocument"} {
		if f := p.Func(pkgDoc, name); f != nil {
			roots = append(roots, f)
		}
	}
	if len(roots) == 0 {
		// role: exported engine methods returning (*Document, error)
		for _, fn := range p.exportedAPI(pkgDoc) {
			if fn.Signature.Recv() != nil && typeIs(fn.Signature.Recv().Type(), pkgDoc, "TemplateEngine") && fn.Signature.Results().Len() == 2 && typeIs(fn.Signature.Results().At(0).Type(), pkgDoc, "Document") {
				roots = append(roots, fn)
			}
		}
	}
	if len(roots) == 0 {
		r.Unresolved("template engine entry point returning (*Document, error)")
		return
	}
	n := 0
	for _, fn := range sortedFuncs(p.staticReach(roots...)) {
		allInstrs(fn, func(in ssa.Instruction) {
			c, ok := in.(*ssa.Call)
			if !ok {
				return
			}
			var subj, needle ssa.Value
			switch cn := calleeName(c); cn {
			case "strings.Contains", "strings.Index", "strings.HasPrefix", "strings.HasSuffix", "strings.Count":
				subj, needle = c.Call.Args[0], c.Call.Args[1]
			case "(*regexp.Regexp).MatchString", "(*regexp.Regexp).FindStringIndex", "(*regexp.Regexp).FindString":
				subj = c.Call.Args[1]
				dir := false
				for _, pat := range regexPatternsOf(c.Call.Args[0]) {
					if isDirectiveConst(pat) {
						dir = true
					}
				}
				if !dir {
					return
				}
			default:
				return
			}
			if needle != nil {
				s, isC := constString(needle)
				if !isC || !(strings.Contains(s, "{{") || strings.Contains(s, "}}")) {
					return
				}
			}
			n++
			// the subject is the text of one run
			single := false
			if ld, ok := stripConv(subj).(*ssa.UnOp); ok && ld.Op == token.MUL {
				if ch, _ := addrChain(ld.X); len(ch) >= 2 {
					if fieldIs(p, ch[len(ch)-1], pkgDoc, "Text", "Content") && fieldIs(p, ch[len(ch)-2], pkgDoc, "Run", "Text") {
						single = true
					}
				}
			}
			r.Check("split-aware", fmt.Sprintf("%s#%d", shortName(topLevel(fn)), n), c.Pos(), !single,
				fmt.Sprintf("%s looks for template syntax in the text of a single run; a placeholder whose braces are split across two runs is not seen and stays unreplaced — test the joined text of the paragraph", shortName(topLevel(fn))))
		})
	}
	r.Min("directive_tests_on_document_template_path", n, 3)
}

// comparedWithConst: the string value v (possibly case-folded or trimmed first) is compared for
// equality with a constant, or used as a key of a map look-up.
func comparedWithConst(v ssa.Value, depth int) bool {
	if depth > 4 || v.Referrers() == nil {
		return false
	}
	for _, u := range *v.Referrers() {
		switch x := u.(type) {
		case *ssa.BinOp:
			if x.Op == token.EQL || x.Op == token.NEQ {
				if _, ok := x.X.(*ssa.Const); ok {
					return true
				}
				if _, ok := x.Y.(*ssa.Const); ok {
					return true
				}
			}
		case *ssa.Lookup:
			if x.Index == v {
				return true
			}
		case *ssa.Phi:
			if comparedWithConst(x, depth+1) {
				return true
			}
		case *ssa.Call:
			if cal := staticCallee(x); cal != nil && cal.Pkg != nil && cal.Pkg.Pkg.Path() == "strings" {
				switch cal.Name() {
				case "ToLower", "ToUpper", "TrimPrefix", "TrimSpace", "TrimLeft":
					if comparedWithConst(x, depth+1) {
						return true
					}
				case "EqualFold":
					return true
				}
			}
		}
	}
	return false
}

// clampedSize: the size expression is bounded above by a constant — it is (a conversion / constant
// offset of) a phi with a constant edge, or of min(x, constant).
// guardedBelowConst: the block at is reached only over the "not above the constant" edge of a
// comparison of the size (behind conversions and ± constants) with a constant
// (if n > max { return … } / if n <= max { alloc }).
func guardedBelowConst(v ssa.Value, at *ssa.BasicBlock) bool {
	core := v
	for i := 0; i < 8; i++ {
		switch x := core.(type) {
		case *ssa.Convert:
			core = x.X
			continue
		case *ssa.ChangeType:
			core = x.X
			continue
		case *ssa.BinOp:
			if x.Op == token.ADD || x.Op == token.SUB {
				if _, isC := x.Y.(*ssa.Const); isC {
					core = x.X
					continue
				}
				if _, isC := x.X.(*ssa.Const); isC && x.Op == token.ADD {
					core = x.Y
					continue
				}
			}
		}
		break
	}
	same := func(a ssa.Value) bool {
		for i := 0; i < 4; i++ {
			if a == core {
				return true
			}
			switch x := a.(type) {
			case *ssa.Convert:
				a = x.X
			case *ssa.ChangeType:
				a = x.X
			default:
				return false
			}
		}
		return a == core
	}
	fn := at.Parent()
	for _, b := range fn.Blocks {
		if len(b.Instrs) == 0 || len(b.Succs) != 2 || b.Succs[0] == b.Succs[1] {
			continue
		}
		iff, ok := b.Instrs[len(b.Instrs)-1].(*ssa.If)
		if !ok {
			continue
		}
		cmp, ok := iff.Cond.(*ssa.BinOp)
		if !ok {
			continue
		}
		_, yc := cmp.Y.(*ssa.Const)
		_, xc := cmp.X.(*ssa.Const)
		var small *ssa.BasicBlock // successor on which size <= / < constant
		switch {
		case yc && same(cmp.X) && (cmp.Op == token.GTR || cmp.Op == token.GEQ):
			small = b.Succs[1]
		case yc && same(cmp.X) && (cmp.Op == token.LSS || cmp.Op == token.LEQ):
			small = b.Succs[0]
		case xc && same(cmp.Y) && (cmp.Op == token.LSS || cmp.Op == token.LEQ):
			small = b.Succs[1]
		case xc && same(cmp.Y) && (cmp.Op == token.GTR || cmp.Op == token.GEQ):
			small = b.Succs[0]
		}
		if small != nil && len(small.Preds) == 1 && (small == at || small.Dominates(at)) {
			return true
		}
	}
	return false
}

func clampedSize(v ssa.Value, depth int) bool {
	if v == nil || depth > 6 {
		return false
	}
	switch x := v.(type) {
	case *ssa.Convert:
		return clampedSize(x.X, depth+1)
	case *ssa.ChangeType:
		return clampedSize(x.X, depth+1)
	case *ssa.BinOp:
		if x.Op == token.ADD || x.Op == token.SUB {
			if _, isC := x.Y.(*ssa.Const); isC {
				return clampedSize(x.X, depth+1)
			}
			if _, isC := x.X.(*ssa.Const); isC {
				return clampedSize(x.Y, depth+1)
			}
		}
	case *ssa.Phi:
		for _, e := range x.Edges {
			if _, isC := e.(*ssa.Const); isC {
				return true
			}
		}
	case *ssa.Call:
		if b, ok := x.Call.Value.(*ssa.Builtin); ok && b.Name() == "min" {
			for _, a := range x.Call.Args {
				if _, isC := a.(*ssa.Const); isC {
					return true
				}
			}
		}
	}
	return false
}
