#!/bin/bash
# debugging helper: apply one committed patch (seeded/<id> or benign/<id>) in a scratch worktree of
# /repo and run the checker for one property (or all) on it.   usage: tools/try.sh seeded/C05-7 C05 [-v]
cd "$(dirname "$0")/.."
export GOFLAGS=-mod=mod GOPROXY=off GOSUMDB=off GOTOOLCHAIN=local GOWORK=off
wt=/tmp/trywt
[ -d $wt ] || git -C /repo worktree add -q --detach $wt HEAD
git -C $wt checkout -q -- . ; git -C $wt clean -fdq
( cd $wt && { git apply /verif/$1/patch.diff 2>/dev/null || patch -p1 -F3 -s --no-backup-if-mismatch < /verif/$1/patch.diff; } ) || { echo "patch does not apply"; exit 2; }
shift
prop=$1; shift
${WZ:-bin/wzcheck} -repo $wt -prop $prop "$@"
