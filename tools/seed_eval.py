#!/usr/bin/env python3
"""(benign mode: set BENIGN=1 — the patch must keep the property: its check test passes with and without it, and ANY report by a check is a false alarm)
Evaluate seeded changes (written by independent sub-agents) against the checks.

usage: seed_eval.py <seed-dir>...      each <seed-dir> holds patch.diff, demo_test.go, meta.json

For every seeded change:
  1. CONFIRM it in a scratch worktree of /repo (outside /repo and /verif): the patch applies,
     pkg/ builds, the 350 baseline tests still pass, the demonstration fails with the patch and
     passes without it.
  2. RUN THE CHECKS: apply the patch to /repo itself, run every property's quick analysis
     (bin/wzcheck -no-evidence, so committed evidence is not touched), undo the patch
     (git checkout -- .), and record which obligations fired.
Prints one JSON object per seed on stdout (and a readable summary on stderr).
"""
import json, os, re, subprocess, sys, shutil, tempfile

ENV = dict(os.environ, GOFLAGS="-mod=mod", GOPROXY="off", GOSUMDB="off", GOTOOLCHAIN="local", GOWORK="off")
VERIF = os.path.dirname(os.path.dirname(os.path.abspath(__file__)))
BASE = json.load(open("/root/.vp/BASELINE.json"))["stable_pass"]
# seeds were written against an earlier HEAD; later fix: commits may shift their context, so fall
# back to patch(1) with fuzz when git apply refuses
APPLY_CHECK = "git apply --check %s/patch.diff || patch -p1 --dry-run -F3 -s < %s/patch.diff".replace("%s/patch.diff ||", "{0}/patch.diff ||").replace("< %s/patch.diff", "< {0}/patch.diff")
APPLY = "git apply {0}/patch.diff || patch -p1 -F3 -s --no-backup-if-mismatch < {0}/patch.diff"
PKGDIR = {"document": "pkg/document", "style": "pkg/style", "markdown": "pkg/markdown", "test": "test"}


def sh(cmd, cwd=None, timeout=1800):
    p = subprocess.run(cmd, shell=True, cwd=cwd, env=ENV, capture_output=True, text=True, timeout=timeout)
    return p.returncode, p.stdout + p.stderr


def suite_passes(wt):
    rc, out = sh("go test -json -vet=off -count=1 -timeout 25m ./pkg/... ./test/...", cwd=wt)
    passed = set()
    for l in out.splitlines():
        try:
            e = json.loads(l)
        except Exception:
            continue
        if e.get("Action") == "pass" and e.get("Test"):
            passed.add(e["Package"] + "::" + e["Test"])
    missing = [t for t in BASE if t not in passed]
    return not missing, missing[:5]


def demo_info(seed):
    demos = [f for f in os.listdir(seed) if f.endswith("_test.go")]
    if not demos:
        return None
    src = open(os.path.join(seed, demos[0])).read()
    pkg = re.search(r"^package (\w+)", src, re.M).group(1)
    ext = pkg.endswith("_test")
    d = PKGDIR.get(pkg[:-5] if ext else pkg)
    tests = re.findall(r"^func (Test\w+)\(", src, re.M)
    return demos[0], d, tests, src


def run_demo(wt, seed, race):
    name, d, tests, src = demo_info(seed)
    dst = os.path.join(wt, d, "zz_seed_demo_test.go")
    shutil.copy(os.path.join(seed, name), dst)
    try:
        rc, out = sh("go test -vet=off -count=1 %s -run '^(%s)$' ./%s/" % ("-race" if race else "", "|".join(tests), d), cwd=wt)
    finally:
        os.remove(dst)
    return rc == 0, out[-1500:]


def confirm(seed, wt):
    res = {}
    sh("git checkout -q -- . && git clean -fdq -e _seed", cwd=wt)
    rc, out = sh(APPLY_CHECK.format(seed), cwd=wt)
    res["applies"] = rc == 0
    if rc != 0:
        res["detail"] = out[-500:]
        return res
    meta = json.load(open(os.path.join(seed, "meta.json")))
    race = bool(meta.get("race_detector_needed")) or ("-race" in json.dumps(meta.get("demo_command", "")) and "without -race" not in json.dumps(meta))
    ok0, out0 = run_demo(wt, seed, race)
    res["demo_passes_without_change"] = ok0
    if not ok0:
        res["demo_out_clean"] = out0
    sh(APPLY.format(seed), cwd=wt)
    rc, out = sh("go build ./pkg/...", cwd=wt)
    res["builds"] = rc == 0
    ok, missing = suite_passes(wt)
    res["existing_tests_pass_with_change"] = ok
    if not ok:
        res["missing"] = missing
    ok1, out1 = run_demo(wt, seed, race)
    res["demo_fails_with_change"] = not ok1
    res["check_passes_with_change"] = ok1
    res["demo_out_changed"] = out1[-600:]
    sh("git checkout -q -- . && git clean -fdq -e _seed", cwd=wt)
    return res


def run_checks(seed):
    rc, out = sh("git -C /repo status --porcelain")
    if out.strip():
        raise SystemExit("/repo is not clean: " + out)
    fired = {}
    rc, out = sh(APPLY.format(seed), cwd="/repo")
    if rc != 0:
        sh("git -C /repo checkout -q -- . && git -C /repo clean -fdq pkg")
        return {"error": {"exit": 2, "violations": [], "checker_failures": ["patch does not apply to /repo HEAD: " + out[-300:]]}}
    try:
        # one process, program loaded once, all 20 properties (evaluation helper mode of wzcheck)
        pr = subprocess.run([os.path.join(VERIF, "bin/wzcheck"), "-prop", "all"], env=ENV, capture_output=True, text=True)
        cur = None
        per = {}
        for l in (pr.stdout + pr.stderr).splitlines():
            m = re.match(r"VIOLATION property=(C\d\d)", l)
            if m:
                cur = m.group(1)
                continue
            m = re.match(r"\s+rule=\S+ obligation=(.*) site=(\S+)", l)
            if m and cur:
                per.setdefault(cur, {"violations": [], "checker_failures": []})["violations"].append(m.group(1) + " @" + m.group(2))
                continue
            m = re.match(r"(?:CHECKER-FAILURE|UNDECIDED) property=(C\d\d|all)", l)
            if m:
                per.setdefault(m.group(1), {"violations": [], "checker_failures": []})["checker_failures"].append(l[:300])
                continue
            m = re.match(r"RESULT property=(C\d\d) exit=(\d+)", l)
            if m and m.group(2) != "0":
                per.setdefault(m.group(1), {"violations": [], "checker_failures": []})["exit"] = int(m.group(2))
        for p, v in per.items():
            v.setdefault("exit", 2 if p == "all" else 0)
            v["checker_failures"] = v["checker_failures"][:5]
            fired[p] = v
    finally:
        sh("git -C /repo checkout -q -- . && git -C /repo clean -fdq pkg")
    return fired


def main():
    wt = "/tmp/seedeval_wt"
    if not os.path.isdir(wt):
        sh("git -C /repo worktree add -q --detach %s HEAD" % wt)
    else:
        sh("git checkout -q --detach $(git -C /repo rev-parse HEAD) && git checkout -q -- .", cwd=wt)
    skip_confirm = os.environ.get("SEED_SKIP_CONFIRM") == "1"
    for seed in sys.argv[1:]:
        seed = os.path.abspath(seed)
        meta = json.load(open(os.path.join(seed, "meta.json")))
        rec = {"seed": seed, "property": meta.get("property")}
        if not skip_confirm:
            rec["confirm"] = confirm(seed, wt)
        rec["checks"] = run_checks(seed)
        own = rec["checks"].get(rec["property"], {})
        rec["caught_by_own_property"] = bool(own.get("violations"))
        rec["caught_by"] = sorted(p for p, v in rec["checks"].items() if v.get("violations"))
        print(json.dumps(rec, ensure_ascii=False))
        sys.stdout.flush()
        c = rec.get("confirm", {})
        sys.stderr.write("%s  prop=%s confirmed=%s caught_by=%s\n" % (seed, rec["property"],
            all(c.get(k) for k in ("applies", "builds", "existing_tests_pass_with_change", "demo_fails_with_change", "demo_passes_without_change")) if c else "skipped",
            rec["caught_by"]))
    sh("git -C /repo worktree remove --force %s" % wt)


if __name__ == "__main__":
    main()
