#!/bin/bash
# dev helper: run every overlay variant of the given properties and print what the checker reports
export GOFLAGS=-mod=mod GOPROXY=off GOSUMDB=off GOTOOLCHAIN=local GOWORK=off
cd "$(dirname "$0")/.."
(cd checker && go build -o ../bin/wzcheck .) || exit 2
for p in "$@"; do
  bin/wzcheck -prop $p -list-mutants | while IFS=$'\t' read -r name kind expect; do
    out=$(bin/wzcheck -prop $p -mutant "$name" -no-evidence 2>&1)
    keys=$(echo "$out" | grep -o 'obligation=.* site=' | sed 's/obligation=//; s/ site=//' | tr '\n' ' ')
    extra=$(echo "$out" | grep -E 'SKIPPED|UNDECIDED|CHECKER-FAILURE' | head -2 | cut -c1-200)
    echo "[$p] $kind $name  expect=$expect  => ${keys:-<silent>} $extra"
  done
done
