#!/bin/bash
# Re-run the static checks against committed seeded changes (seeded/<id>/patch.diff):
# apply to /repo, run the quick analysis of the seed's own property (or all with ALL=1), undo.
# usage: tools/seed_checks.sh [seed-id ...]      (default: all)
cd "$(dirname "$0")/.."
export GOFLAGS=-mod=mod GOPROXY=off GOSUMDB=off GOTOOLCHAIN=local GOWORK=off
[ -n "$(git -C /repo status --porcelain)" ] && { echo "/repo not clean"; exit 2; }
seeds="$@"; [ -z "$seeds" ] && seeds=$(ls seeded)
caught=0; total=0
for s in $seeds; do
  prop=${s%%-*}
  ( cd /repo && { git apply /verif/seeded/$s/patch.diff 2>/dev/null || patch -p1 -F3 -s --no-backup-if-mismatch < /verif/seeded/$s/patch.diff; } ) || { echo "$s: patch does not apply"; git -C /repo checkout -q -- .; continue; }
  props=$prop; [ -n "$ALL" ] && props=$(seq -f "C%02g" 1 20)
  line=""
  for p in $props; do
    out=$(bin/wzcheck -prop $p -no-evidence 2>&1); rc=$?
    keys=$(echo "$out" | grep -o 'obligation=.* site=' | sed 's/obligation=//; s/ site=//' | head -3 | tr '\n' ';')
    fails=$(echo "$out" | grep -c 'CHECKER-FAILURE\|UNDECIDED')
    [ $rc -ne 0 ] && line="$line $p(exit=$rc${fails:+ fail=$fails}): $keys"
  done
  git -C /repo checkout -q -- . ; git -C /repo clean -fdq pkg
  total=$((total+1))
  if echo "$line" | grep -q "$prop(exit=1"; then caught=$((caught+1)); echo "CAUGHT $s $line" | cut -c1-400; else echo "MISSED $s $line" | cut -c1-300; fi
done
echo "caught by own property: $caught / $total"
