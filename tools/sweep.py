#!/usr/bin/env python3
"""Evaluate the checker against every committed seeded change and benign change.

Each patch is applied in a scratch worktree of /repo HEAD (never in /repo), all 20 properties are
evaluated in one process (wzcheck -repo <wt> -prop all), and the worktree is reset.
usage: sweep.py [-j N] [seeded|benign|<id-prefix> ...]     e.g.  sweep.py C05 benign/C01
Prints one line per patch:  CAUGHT/MISSED for seeds (by the seed's own property),
SILENT/NOISY for benign changes; a summary at the end.  Exit 0 always (a measuring tool).
"""
import json, os, re, subprocess, sys, tempfile, shutil
from concurrent.futures import ThreadPoolExecutor
import threading, queue

VERIF = os.path.dirname(os.path.dirname(os.path.abspath(__file__)))
ENV = dict(os.environ, GOFLAGS="-mod=mod", GOPROXY="off", GOSUMDB="off", GOTOOLCHAIN="local", GOWORK="off")
args = sys.argv[1:]
J = 6
if args and args[0] == "-j":
    J = int(args[1]); args = args[2:]
items = []
for kind in ("seeded", "benign"):
    for d in sorted(os.listdir(os.path.join(VERIF, kind)), key=lambda x: (x.split("-")[0], int(x.split("-")[1])) if re.match(r"C\d\d-\d+$", x) else (x, 0)):
        if not re.match(r"C\d\d-\d+$", d):
            continue
        tag = kind + "/" + d
        if args and not any(a == kind or tag.startswith(a) or d.startswith(a) for a in args):
            continue
        items.append((kind, d))

base = tempfile.mkdtemp(prefix="sweep.", dir="/tmp")
wts = queue.Queue()
for i in range(J):
    wt = os.path.join(base, "w%d" % i)
    subprocess.run(["git", "-C", "/repo", "worktree", "add", "-q", "--detach", wt, "HEAD"], check=True)
    wts.put(wt)

def parse(out):
    per, cur = {}, None
    for l in out.splitlines():
        m = re.match(r"VIOLATION property=(C\d\d)", l)
        if m:
            cur = m.group(1); continue
        m = re.match(r"\s+rule=\S+ obligation=(.*) site=(\S+)", l)
        if m and cur:
            per.setdefault(cur, []).append(m.group(1)); continue
        m = re.match(r"(?:CHECKER-FAILURE|UNDECIDED) property=(C\d\d|all) (.*)", l)
        if m:
            per.setdefault(m.group(1), []).append("!" + m.group(2)[:150]); continue
    return per

def run(item):
    kind, d = item
    wt = wts.get()
    try:
        patch = os.path.join(VERIF, kind, d, "patch.diff")
        a = subprocess.run("git apply %s 2>/dev/null || patch -p1 -F3 -s --no-backup-if-mismatch < %s" % (patch, patch), shell=True, cwd=wt, capture_output=True, text=True)
        if a.returncode != 0:
            return item, None
        o = subprocess.run([os.path.join(VERIF, "bin/wzcheck"), "-repo", wt, "-prop", "all"], env=ENV, capture_output=True, text=True)
        return item, parse(o.stdout + o.stderr)
    finally:
        subprocess.run("git checkout -q -- . && git clean -fdq", shell=True, cwd=wt)
        wts.put(wt)

res = {}
try:
    with ThreadPoolExecutor(J) as ex:
        for item, per in ex.map(run, items):
            res[item] = per
finally:
    for i in range(J):
        subprocess.run(["git", "-C", "/repo", "worktree", "remove", "--force", os.path.join(base, "w%d" % i)])
    shutil.rmtree(base, ignore_errors=True)

caught = missed = silent = noisy = stale = 0
for (kind, d) in items:
    per = res[(kind, d)]
    prop = d.split("-")[0]
    if per is None:
        stale += 1; print("STALE  %s/%s (patch no longer applies)" % (kind, d)); continue
    if any("load failed" in k for k in per.get("all", [])):
        stale += 1; print("STALE  %s/%s (applies, but no longer compiles on HEAD: it collides with a later fix: commit)" % (kind, d)); continue
    if kind == "seeded":
        own = [k for k in per.get(prop, []) if not k.startswith("!")]
        others = sorted(p for p in per if p != prop and any(not k.startswith("!") for k in per[p]))
        fails = sorted(p for p in per if any(k.startswith("!") for k in per[p]))
        if own:
            caught += 1; print("CAUGHT %s  %s%s" % (d, "; ".join(own[:2])[:160], ("  [checker failures: %s]" % ",".join(fails)) if fails else ""))
        else:
            missed += 1; print("MISSED %s  (others: %s)%s" % (d, ",".join(others), ("  [checker failures: %s]" % ",".join(fails)) if fails else ""))
    else:
        if per:
            noisy += 1
            print("NOISY  benign/%s  %s" % (d, " | ".join("%s: %s" % (p, "; ".join(v[:2])[:140]) for p, v in sorted(per.items()))))
        else:
            silent += 1; print("SILENT benign/%s" % d)
print("seeded: caught %d missed %d | benign: silent %d noisy %d | stale %d" % (caught, missed, silent, noisy, stale))
json.dump({"%s/%s" % k: v for k, v in res.items()}, open("/tmp/sweep.json", "w"), indent=1)
