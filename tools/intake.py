#!/usr/bin/env python3
"""Take in changes written by independent sub-agents (round directories under /tmp), confirm each
with seed_eval.py and file the confirmed ones under /verif/seeded/<id>/ or /verif/benign/<id>/.

usage: intake.py seed|benign <round-root> <round-no> <prop> [<prop> ...]
  <round-root>/<prop>/_seed/<k>/{patch.diff, demo_test.go|check_test.go, meta.json}
Ids continue after the highest existing <prop>-<n>.  Nothing unconfirmed is kept.
"""
import json, os, re, shutil, subprocess, sys

VERIF = os.path.dirname(os.path.dirname(os.path.abspath(__file__)))
kind, root, rnd = sys.argv[1], sys.argv[2], int(sys.argv[3])
dest_root = os.path.join(VERIF, "seeded" if kind == "seed" else "benign")
head = subprocess.check_output("git -C /repo rev-parse --short HEAD", shell=True, text=True).strip()
for prop in sys.argv[4:]:
    sd = os.path.join(root, prop, "_seed")
    for k in sorted(d for d in os.listdir(sd) if os.path.isdir(os.path.join(sd, d))):
        src = os.path.join(sd, k)
        need = "demo_test.go" if kind == "seed" else "check_test.go"
        if not all(os.path.exists(os.path.join(src, f)) for f in ("patch.diff", need, "meta.json")):
            print("INCOMPLETE", src); continue
        try:
            meta = json.load(open(os.path.join(src, "meta.json")))
        except Exception as e:
            print("BAD-META", src, e); continue
        meta["property"] = prop
        json.dump(meta, open(os.path.join(src, "meta.json"), "w"))
        env = dict(os.environ)
        if kind == "benign":
            env["BENIGN"] = "1"
        out = subprocess.run([os.path.join(VERIF, "tools/seed_eval.py"), src], env=env, capture_output=True, text=True)
        try:
            rec = json.loads(out.stdout.strip().splitlines()[-1])
        except Exception:
            print("EVAL-FAILED", src, out.stdout[-300:], out.stderr[-300:]); continue
        c = rec.get("confirm", {})
        if kind == "seed":
            ok = all(c.get(x) for x in ("applies", "builds", "existing_tests_pass_with_change", "demo_fails_with_change", "demo_passes_without_change"))
        else:
            ok = all(c.get(x) for x in ("applies", "builds", "existing_tests_pass_with_change", "check_passes_with_change", "demo_passes_without_change"))
        if not ok:
            print("NOT-CONFIRMED", src, json.dumps({x: c.get(x) for x in c if x not in ("demo_out_changed",)})[:600]); continue
        n = 1 + max([int(m.group(1)) for d in os.listdir(dest_root) for m in [re.match(prop + r"-(\d+)$", d)] if m] + [0])
        dst = os.path.join(dest_root, "%s-%d" % (prop, n))
        os.makedirs(dst)
        shutil.copy(os.path.join(src, "patch.diff"), os.path.join(dst, "patch.diff"))
        shutil.copy(os.path.join(src, need), os.path.join(dst, need + ".txt"))
        checks = {p: {"violations": v.get("violations", []), "checker_failures": v.get("checker_failures", [])} for p, v in rec["checks"].items()}
        m2 = {"property": prop, "round": rnd, "base_commit": head}
        if kind == "seed":
            m2.update({"breaks": meta.get("breaks"), "needs_to_manifest": meta.get("needs_to_manifest"), "files_changed": meta.get("files_changed"),
                       "demo": {"file": "demo_test.go.txt (copy into the package directory named by its package clause as a _test.go file)", "command": meta.get("demo_command")},
                       "author": "independent sub-agent given only the property text and a scratch worktree of /repo",
                       "confirmed_by_me": {x: c.get(x) for x in ("applies", "demo_passes_without_change", "builds", "existing_tests_pass_with_change", "demo_fails_with_change")},
                       "what_i_ran": "tools/intake.py -> tools/seed_eval.py: scratch worktree of /repo HEAD; git apply; go build ./pkg/...; go test -json ./pkg/... ./test/... compared with the 350 baseline tests; demonstration with and without the patch; then patch applied to /repo, all 20 quick analyses (wzcheck -prop all), git checkout -- .",
                       "caught_when_first_evaluated": {"by_own_property": rec["caught_by_own_property"], "by": rec["caught_by"], "reports": checks}})
        else:
            m2.update({"kind": "benign", "summary": meta.get("summary"), "files_changed": meta.get("files_changed"),
                       "check": {"file": "check_test.go.txt", "command": meta.get("check_command")},
                       "author": "independent sub-agent given only the property text and a scratch worktree of /repo; asked for a behaviour-preserving change",
                       "confirmed_by_me": {"applies": c.get("applies"), "builds": c.get("builds"), "existing_tests_pass_with_change": c.get("existing_tests_pass_with_change"),
                                           "check_passes_without_change": c.get("demo_passes_without_change"), "check_passes_with_change": c.get("check_passes_with_change")},
                       "reports_when_first_evaluated": checks, "known_checker_limitation": False})
        json.dump(m2, open(os.path.join(dst, "meta.json"), "w"), indent=1, ensure_ascii=False)
        if kind == "seed":
            print("KEPT %s own=%s by=%s" % (os.path.basename(dst), rec["caught_by_own_property"], ",".join(rec["caught_by"])))
            own = checks.get(prop, {})
            for v in own.get("violations", [])[:3]:
                print("      ", v[:200])
        else:
            noisy = {p: v for p, v in checks.items() if v["violations"] or v["checker_failures"]}
            print("KEPT %s %s" % (os.path.basename(dst), "SILENT" if not noisy else "NOISY " + ",".join(sorted(noisy))))
            for p, v in sorted(noisy.items()):
                for x in (v["violations"] + v["checker_failures"])[:3]:
                    print("      ", p, x[:200])
