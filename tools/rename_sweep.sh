#!/bin/bash
# Robustness sweep of the checker against renames: every unexported function/method of pkg/ is
# renamed consistently (gofmt -r on all files of its package) in a scratch worktree of /repo and
# all 20 properties are evaluated on the result.  Renaming changes no behaviour, so any report
# or checker failure is a false alarm of the checker (a name-bound anchor that should be role-bound).
# usage: tools/rename_sweep.sh [workers]      output: one line per name that is not silent
cd "$(dirname "$0")/.."
export GOFLAGS=-mod=mod GOPROXY=off GOSUMDB=off GOTOOLCHAIN=local GOWORK=off
W=${1:-4}
base=$(mktemp -d /tmp/rnsweep.XXXX)
names=$(cd /repo && grep -hoE '^func (\([a-zA-Z_]+ \*?[A-Za-z_]+\) )?[a-z][A-Za-z0-9_]*\(' pkg/*/*.go | sed -E 's/^func (\([^)]*\) )?//; s/\($//' | sort -u | grep -v '^init$\|^main$')
for w in $(seq 1 $W); do git -C /repo worktree add -q --detach $base/w$w HEAD; done
i=0
for n in $names; do echo $n; done | awk -v W=$W '{print > "'$base'/list" (NR%W+1)}'
for w in $(seq 1 $W); do
 (
  wt=$base/w$w
  while read n; do
    for d in document style markdown; do
      if grep -qE "^func (\([a-zA-Z_]+ \*?[A-Za-z_]+\) )?$n\(" $wt/pkg/$d/*.go; then
        gofmt -r "$n -> ${n}Rn" -w $wt/pkg/$d/*.go 2>/dev/null
      fi
    done
    out=$(bin/wzcheck -repo $wt -prop all 2>&1)
    if echo "$out" | grep -q 'load failed'; then echo "SKIP $n (does not type-check after rename)";
    else
      bad=$(echo "$out" | grep -E 'RESULT property=.* exit=[1-9]' | sed 's/RESULT property=//; s/ exit=/:/' | tr '\n' ' ')
      [ -n "$bad" ] && { echo "NOISY $n -> $bad"; echo "$out" | grep -E 'obligation=|CHECKER-FAILURE' | sed 's/ site=.*//' | cut -c1-220 | head -6 | sed 's/^/      /'; }
    fi
    git -C $wt checkout -q -- .
  done < $base/list$w
 ) > $base/out$w 2>&1 &
done
wait
cat $base/out* | tee /tmp/rename_sweep.out | grep -c NOISY
for w in $(seq 1 $W); do git -C /repo worktree remove --force $base/w$w; done
rm -rf $base
