#!/bin/bash
# Checker self-validation against the repository's own history (not a registered check).
# For every commit of /repo from the pinned snapshot to HEAD the 20 analyses are run on a scratch
# worktree (outside /repo and /verif, removed afterwards).  For each "fix:" commit the report lists
# the obligation keys that are violated on its parent and discharged on the commit itself — i.e.
# every repaired defect is detected on the tree that still has it and is silent once it is gone —
# and any key that APPEARS with a commit (a regression of the checker or of the code).
# Output: history/report.txt
export GOFLAGS=-mod=mod GOPROXY=off GOSUMDB=off GOTOOLCHAIN=local GOWORK=off
V=$(cd "$(dirname "$0")/.." && pwd)
W=$(mktemp -d /tmp/wzhist.XXXXXX)
cat > $W/one.sh <<EOS
#!/bin/bash
cd $V && bin/wzcheck -repo \$1 -prop \$3 -no-evidence 2>&1 | grep -E 'rule=.*obligation=|CHECKER-FAILURE|UNDECIDED' | sed 's/ site=.*//' > $W/out_\$2_\$3.txt
EOS
chmod +x $W/one.sh
for c in $(git -C /repo log --reverse --format=%h); do
  wt=$W/wt_$c
  git -C /repo worktree add -q --detach $wt $c
  for i in $(seq -w 1 20); do echo "$wt $c C$i"; done | xargs -P 12 -L1 $W/one.sh
  git -C /repo worktree remove --force $wt
done
python3 - $W > $V/history/report.txt <<'PY'
import subprocess,re,sys
W=sys.argv[1]
commits=subprocess.check_output(['git','-C','/repo','log','--reverse','--format=%h %s']).decode().strip().split('\n')
def keys(c,p):
    ks=set()
    for l in open('%s/out_%s_%s.txt'%(W,c,p)):
        l=l.strip()
        m=re.search(r'obligation=(.*)$',l)
        if m: ks.add(m.group(1))
        elif l: ks.add('!! '+l[:160])
    return ks
prev=None
for line in commits:
    c,subj=line.split(' ',1)
    cur={('C%02d'%i):keys(c,'C%02d'%i) for i in range(1,21)}
    if prev is None:
        print('base %s: %d reported obligations on the pinned tree'%(c,sum(len(v) for v in cur.values())))
    else:
        print('%s %s'%(c,subj))
        for p in sorted(cur):
            for k in sorted(prev[p]-cur[p]): print('   fixed %s %s'%(p,k))
            for k in sorted(cur[p]-prev[p]): print('   NEW   %s %s'%(p,k))
    prev=cur
print('HEAD: remaining reported obligations (= status=known entries of known_findings.json):')
for p in sorted(prev):
    for k in sorted(prev[p]): print('   %s %s'%(p,k))
PY
rm -rf $W
git -C /repo worktree prune
