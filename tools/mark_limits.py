#!/usr/bin/env python3
"""After tools/sweep.py: record in each seeded/<id>/meta.json whether the seed is currently missed by
its own property's check (known_checker_limitation: the thorough self-test then reports it as a
known limitation instead of failing), and for benign/<id> the list of properties whose self-test
replays the patch (own property + every property that ever reported on it)."""
import json, os, re, sys
V = os.path.dirname(os.path.dirname(os.path.abspath(__file__)))
res = json.load(open("/tmp/sweep.json"))
n_lim = 0
for tag, per in sorted(res.items()):
    kind, d = tag.split("/")
    mp = os.path.join(V, kind, d, "meta.json")
    meta = json.load(open(mp))
    prop = d.split("-")[0]
    if kind == "seeded":
        if per is None:
            continue
        own = [k for k in per.get(prop, []) if not k.startswith("!")]
        lim = not own
        n_lim += lim
        if meta.get("known_checker_limitation", False) != lim:
            meta["known_checker_limitation"] = lim
            json.dump(meta, open(mp, "w"), indent=1, ensure_ascii=False)
    else:
        props = set(meta.get("properties") or [prop])
        props.add(prop)
        for k in ("reports_when_first_evaluated",):
            props.update((meta.get(k) or {}).keys())
        props.discard("all")
        props = sorted(props)
        noisy = bool(per)
        if meta.get("properties") != props or meta.get("known_checker_limitation", False) != noisy:
            meta["properties"] = props
            meta["known_checker_limitation"] = noisy
            json.dump(meta, open(mp, "w"), indent=1, ensure_ascii=False)
print("seeds currently missed by their own property:", n_lim)
