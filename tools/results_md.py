#!/usr/bin/env python3
"""After tools/sweep.py: regenerate seeded/RESULTS.md from /tmp/sweep.json (which check reports
which committed seeded change)."""
import json, os, re
V = os.path.dirname(os.path.dirname(os.path.abspath(__file__)))
res = json.load(open("/tmp/sweep.json"))
def key(tag):
    d = tag.split("/")[1]
    return (d.split("-")[0], int(d.split("-")[1]))
lines = ["# Seeded changes: what the checks report (regenerated from tools/sweep.py by tools/results_md.py)", "",
         "Each committed seeded change is applied in a scratch worktree of /repo HEAD and all 20 properties are evaluated (`wzcheck -prop all`).",
         "`own` = obligation keys reported by the seed's own property; `others` = other properties that report.", "",
         "| seed | round | own property reports | others |", "|---|---|---|---|"]
caught = missed = stale = 0
for tag in sorted((t for t in res if t.startswith("seeded/")), key=key):
    d = tag.split("/")[1]
    prop = d.split("-")[0]
    per = res[tag]
    meta = json.load(open(os.path.join(V, "seeded", d, "meta.json")))
    rnd = meta.get("round", "?")
    if per is None or any("load failed" in k for k in (per or {}).get("all", [])):
        stale += 1
        lines.append("| %s | %s | *stale: no longer applies/compiles on HEAD (its site was rewritten by a fix: commit)* | |" % (d, rnd))
        continue
    own = [k for k in per.get(prop, []) if not k.startswith("!")]
    fails = [k for k in per.get(prop, []) if k.startswith("!")]
    others = sorted(p for p in per if p not in (prop, "all") and any(not k.startswith("!") for k in per[p]))
    if own:
        caught += 1
        txt = "; ".join(own[:3])
    else:
        missed += 1
        txt = "**not reported** (value-level; see DESIGN.md)" + (" — checker failure: " + fails[0][1:120] if fails else "")
    lines.append("| %s | %s | %s | %s |" % (d, rnd, txt.replace("|", "\\|"), ", ".join(others)))
lines += ["", "Reported by their own property: %d of %d applicable seeds (%d not reported, %d stale)." % (caught, caught + missed, missed, stale)]
ben = [t for t in res if t.startswith("benign/")]
noisy = [t for t in ben if res[t]]
stale_b = [t for t in ben if res[t] is None]
lines += ["Benign changes: %d of %d applicable silent on all 20 properties%s." % (len(ben) - len(noisy) - len(stale_b), len(ben) - len(stale_b), ("; reported: " + ", ".join(sorted(noisy))) if noisy else "")]
open(os.path.join(V, "seeded", "RESULTS.md"), "w").write("\n".join(lines) + "\n")
print(lines[-2]); print(lines[-1])
