#!/bin/bash
# Re-run ALL static checks against the committed behaviour-preserving refactorings
# (benign/<id>/patch.diff): apply to /repo, run the quick analysis of every property, undo.
# Any report or checker failure is a false alarm.   usage: tools/benign_checks.sh [id ...]
cd "$(dirname "$0")/.."
export GOFLAGS=-mod=mod GOPROXY=off GOSUMDB=off GOTOOLCHAIN=local GOWORK=off
[ -n "$(git -C /repo status --porcelain)" ] && { echo "/repo not clean"; exit 2; }
ids="$@"; [ -z "$ids" ] && ids=$(ls benign)
noisy=0; total=0
for s in $ids; do
  ( cd /repo && { git apply /verif/benign/$s/patch.diff 2>/dev/null || patch -p1 -F3 -s --no-backup-if-mismatch < /verif/benign/$s/patch.diff; } ) || { echo "$s: patch does not apply"; git -C /repo checkout -q -- .; continue; }
  tmp=$(mktemp -d)
  seq -f "C%02g" 1 20 | xargs -P 10 -I{} sh -c "bin/wzcheck -prop {} -no-evidence > $tmp/{} 2>&1; echo \$? > $tmp/{}.rc"
  git -C /repo checkout -q -- . ; git -C /repo clean -fdq pkg
  line=""
  for p in $(seq -f "C%02g" 1 20); do
    rc=$(cat $tmp/$p.rc)
    if [ "$rc" != 0 ]; then
      keys=$(grep -o 'obligation=.* site=' $tmp/$p | sed 's/obligation=//; s/ site=//' | head -3 | tr '\n' ';')
      fails=$(grep 'CHECKER-FAILURE' $tmp/$p | head -2 | cut -c1-160 | tr '\n' ';')
      line="$line $p(exit=$rc): $keys $fails"
    fi
  done
  rm -rf $tmp
  total=$((total+1))
  if [ -n "$line" ]; then noisy=$((noisy+1)); echo "NOISY  $s $line" | cut -c1-500; else echo "SILENT $s"; fi
done
echo "silent on all 20 properties: $((total-noisy)) / $total"
