#!/bin/sh
# Runs the repository's test suite (guard off: there are no hooks) and compares the set of
# passing tests with /root/.vp/BASELINE.json (350 stable tests).  Exit 0 iff all of them pass.
cd /repo || exit 2
export GOFLAGS=-mod=mod GOPROXY=off
out=$(mktemp)
go test -json -vet=off -count=1 -timeout 25m ./pkg/... ./test/... > "$out" 2>/dev/null
python3 - "$out" <<'PY'
import json,sys
passed=set()
for l in open(sys.argv[1]):
    try: e=json.loads(l)
    except Exception: continue
    if e.get('Action')=='pass' and e.get('Test'):
        passed.add(e['Package']+'::'+e['Test'])
base=json.load(open('/root/.vp/BASELINE.json'))['stable_pass']
missing=[t for t in base if t not in passed]
print('baseline tests passing: %d/%d' % (len(base)-len(missing), len(base)))
for m in missing[:20]: print('  MISSING', m)
sys.exit(1 if missing else 0)
PY
rc=$?
rm -f "$out"
exit $rc
